"""C18 - example listeners survive arbitrary datagrams.

The unmodified listener source is #include'd into a wrapper TU (main renamed), linked with the real
library; recv/write/printf/poll/timers/sockets are stubs (gen/listeners.py).  Every CBMC memory-safety
check, every unwinding assertion (a loop that a datagram can drive beyond its bound = "no bound on
work per datagram") and "no fatal status for a bad datagram" are the obligations."""
import glob
import os

from .common import *
from engine import core
from gen import listeners as L
from . import c07

LIB = sorted(os.path.relpath(p, core.REPO) for p in glob.glob(os.path.join(core.REPO, 'src/avtp/**/*.c'), recursive=True))
US = dict(WALKER)
US.update({'printf.0': 1502, 'printf.1': 1502, 'printf.2': 1502, 'puts.0': 200, 'recv.0': 1502, 'write.0': 1502, 'read.0': 20, 'present_data.0': 1502, 'vp_load_input.0': 8})


def jobs_for(tier, only=None):
    ndg = 1      # real-size buffers: one datagram from an arbitrary carried-over state; sequences run scaled
    lmax = 96 if tier == 'quick' else 160
    vlen = 128 if tier == 'quick' else 512       # acf-vss: bound on the received length (real-size buffer)
    jobs = []

    HEAVY = ('acf-can-listener', 'cvf-listener', 'acf-vss-listener')

    def add(name, src, unwindset, unwind=12, defines=(), timeout=1500, meta=None, nondet_static=False, loop_policy=None, **_):
        if only and not any(o in name for o in only.split(',')):
            return
        if tier == 'quick' and 'scaled' not in name and name.startswith(HEAVY):
            return      # real-size buffers of these three listeners: thorough tier (minutes, tens of GB)
        us = dict(US)
        us.update(unwindset)
        jobs.append(Job('c18.' + name, src, LIB, incs=['examples'], unwind=unwind, unwindset=us,
                        defines=list(defines), timeout=timeout, backend='cadical', mem_gb=(12 if 'scaled' in name else (36 if 'acf-vss' in name else (24 if (tier == 'thorough' or 'cvf' in name) else 12))),
                        nondet_static=nondet_static, loop_policy=loop_policy,
                        meta=dict({'datagrams': ndg, 'received_length': '0..%s (arbitrary content; the 1500-byte buffer tail is arbitrary too)' % (defines and defines[0].split('=')[1] or 1500)}, **(meta or {}))))

    # acf-can-listener: 4 modes, each ACF message consumes >= 16 bytes
    for udp in (0, 1):
        for fd in (0, 1):
            add('acf-can-listener.%s.%s' % ('udp' if udp else 'raw', 'fd' if fd else 'classic'),
                L.acf_can_listener(ndg, (udp, fd)), {'new_packet.0': lmax // 16 + 2, 'harness.0': ndg + 1},
                defines=['VP_LEN_MAX=%d' % lmax], meta={'mode': 'udp=%d fd=%d' % (udp, fd)})
    # hello-world-listener: receive path = body of main's while(1)
    for udp in (0, 1):
        add('hello-world-listener.%s' % ('udp' if udp else 'raw'),
            L.main_loop_listener('hello-world/hello-world-listener.c', 'hello-world-listener', ndg, ['use_udp = %d;' % udp]),
            {'listener_main.0': ndg + 2, 'printf.0': 200, 'printf.1': 200, 'printf.2': 200}, defines=['VP_LEN_MAX=1500'],
            meta={'mode': 'udp=%d' % udp, 'printf_string_scan_bound': 200})
    for udp in (0, 1):
        add('acf-vss-listener.%s' % ('udp' if udp else 'raw'),
            L.main_loop_listener('acf-vss/acf-vss-listener.c', 'acf-vss-listener', ndg, ['use_udp = %d;' % udp]),
            {'listener_main.0': ndg + 2, 'printf.0': vlen + 40, 'printf.1': vlen + 40, 'printf.2': vlen + 40}, unwind=12,
            defines=['VP_LEN_MAX=%d' % vlen], meta={'mode': 'udp=%d' % udp}, loop_policy=c07.codec_loop_policy('float', 2))
    add('cvf-listener', L.packet_fn_listener('cvf/cvf-listener.c', 'cvf-listener', 'new_packet(3, 5)', ndg,
                                             ['STAILQ_INIT(&nals);', 'expected_seq = vp_g.st[0];']),
        {'harness.0': ndg + 1}, defines=['VP_LEN_MAX=%d' % (160 if tier == 'quick' else 1500)])
    for nd in ((1, 2, 3) if tier == 'quick' else (1, 2, 3, 4)):
        add('aaf-listener.dg%d' % nd,
            L.packet_fn_listener('aaf/aaf-listener.c', 'aaf-listener', 'new_packet(3, 5)', nd,
                                 ['STAILQ_INIT(&samples);', 'expected_seq = vp_g.st[0];'],
                                 between=('!STAILQ_EMPTY(&samples)', 'timeout(5)')),
            {'harness.0': nd + 1}, defines=['VP_LEN_MAX=1500'],
            meta={'datagrams': nd, 'timer_expiry_between_datagrams': 'symbolic choice'})
    # ---- scaled model: the guarded hook shrinks the receive buffer, so that EVERY received length up to the
    # buffer size (the end-of-buffer cases) is covered by one cheap query
    def scaled(name, src, size, unwindset, extra_defs=(), **kw):
        add(name + '.scaled%d.dg%d' % (size, ndg_s), src, dict(unwindset, **{'recv.0': size + 2, 'write.0': size + 80,
                                                              'present_data.0': size + 2}),
            defines=['VP_LEN_MAX=%d' % size, 'VP_DG_MAX=%d' % size] + list(extra_defs),
            meta={'scaled_receive_buffer': size, 'hook': 'COVESA_OPEN1722_VERIF_MAX_PDU_SIZE / _DATA_LEN'}, **kw)
    scale = 1 if tier == 'quick' else 2
    for ndg_s in ((1, 2) if tier == 'quick' else (1, 2, 3)):
        for udp in (0, 1):
            for fd in (0, 1):
                scaled('acf-can-listener.%s.%s' % ('udp' if udp else 'raw', 'fd' if fd else 'classic'),
                       L.acf_can_listener(ndg_s, (udp, fd)), 112 * (scale if ndg_s < 3 else 1),
                       {'new_packet.0': 112 * scale // 16 + 2, 'harness.0': ndg_s + 1},
                       ['COVESA_OPEN1722_VERIF_MAX_PDU_SIZE=%d' % (112 * (scale if ndg_s < 3 else 1))])
        for udp in (0, 1):
            scaled('hello-world-listener.%s' % ('udp' if udp else 'raw'),
                   L.main_loop_listener('hello-world/hello-world-listener.c', 'hello-world-listener', ndg_s, ['use_udp = %d;' % udp]),
                   72 * scale, {'listener_main.0': ndg_s + 2, 'printf.0': 220, 'printf.1': 220, 'printf.2': 220},
                   ['COVESA_OPEN1722_VERIF_MAX_PDU_SIZE=%d' % (72 * scale)])
            scaled('acf-vss-listener.%s' % ('udp' if udp else 'raw'),
                   L.main_loop_listener('acf-vss/acf-vss-listener.c', 'acf-vss-listener', ndg_s, ['use_udp = %d;' % udp]),
                   72 * scale, {'listener_main.0': ndg_s + 2, 'printf.0': 220, 'printf.1': 220, 'printf.2': 220},
                   ['COVESA_OPEN1722_VERIF_MAX_PDU_SIZE=%d' % (72 * scale)], loop_policy=c07.codec_loop_policy('float', 2))
        scaled('cvf-listener', L.packet_fn_listener('cvf/cvf-listener.c', 'cvf-listener', 'new_packet(3, 5)', ndg_s,
                                                    ['STAILQ_INIT(&nals);', 'expected_seq = vp_g.st[0];'],
                                                    between=('!STAILQ_EMPTY(&nals)', 'timeout(5)')),
               28 + 32 * scale, {'harness.0': ndg_s + 1}, ['COVESA_OPEN1722_VERIF_DATA_LEN=%d' % (32 * scale)])
    crf_pre = ['STAILQ_INIT(&mclk_timestamps);', 'crf_seq_num = vp_g.st[0]; aaf_seq_num = vp_g.st[1];',
               'prev_state = vp_g.st[2] & 1; need_mclk_lookup = vp_g.st[3] & 1; first_aaf_pdu = vp_g.st[4] & 1;',
               'memcpy(&prev_mclk_timestamp, &vp_g.st[5], 8);']
    add('crf-listener.listener', L.packet_fn_listener('crf/crf-listener.c', 'crf-listener (listener mode)',
                                                      'aaf_listener_recv_pdu(3)', ndg, ['mode = MODE_LISTENER;'] + crf_pre),
        {'harness.0': ndg + 1, 'recover_mclk.0': 200, 'mclk_lookup.0': 8}, defines=['VP_LEN_MAX=1500'], timeout=1500)
    add('crf-listener.talker', L.packet_fn_listener('crf/crf-listener.c', 'crf-listener (talker mode)',
                                                    'aaf_talker_recv_pdu(3, 5)', ndg, ['mode = MODE_TALKER;'] + crf_pre),
        {'harness.0': ndg + 1, 'recover_mclk.0': 200, 'mclk_lookup.0': 8}, defines=['VP_LEN_MAX=1500'], timeout=1500)
    return jobs


def run(tier, only=None):
    chk = Check('C18', tier)
    jobs = jobs_for(tier, only)
    res = core.run_jobs(jobs, chk.scratch)
    chk.results += res
    for r in res:
        # an unwinding assertion inside the example code is a finding (unbounded work per datagram),
        # not an engine problem: re-classify before triage
        if r.status == 'inconclusive' and r.reason.startswith('unwinding bound too small'):
            stub_loops = [p for p in r.failed if p.kind == 'unwind' and p.func in
                          ('recv', 'write', 'read', 'puts', 'present_data', 'vp_load_input', 'harness',
                           'vp_obj_from', 'spec_get', 'spec_put', 'Avtp_GetField', 'Avtp_SetField')]
            if not stub_loops:
                for p in r.failed:
                    if p.kind == 'unwind':
                        p.kind = 'safety'
                        if p.func == 'printf':
                            p.desc = 'C18 printf: a %%s argument is not NUL-terminated within %s bytes (%s)' % (
                                r.job.unwindset.get(p.pid.replace('.unwind.', '.'), r.job.unwind), p.desc)
                        else:
                            p.desc = 'C18 no bound on work per datagram: loop in %s exceeds %s iterations for some datagram (%s)' % (
                                p.func, r.job.unwindset.get(p.pid.replace('.unwind.', '.'), r.job.unwind), p.desc)
                r.status = 'fail'
        chk._triage(r)
    chk.assumptions = STD_ASSUME + [
        'environment = stubs (part of the claim): recv delivers an arbitrary length 0..L with arbitrary content and '
        'leaves arbitrary stale bytes in the rest of the buffer, fails after the k-th datagram; write/present_data '
        'read their whole source; printf walks the literal format and reads every %s argument up to its NUL; '
        'poll/timerfd/socket helpers/argp_parse succeed without effects; get_presentation_time/arm_timer are '
        'stubbed (environment plumbing); clock fixed',
        'state carried between datagrams (expected sequence numbers, media-clock flags) is arbitrary at entry; '
        'queues start empty; real-size runs: 1 datagram from an arbitrary carried-over state; scaled runs: 1 and 2 (thorough: 3) consecutive datagrams',
        'acf-can-listener: received length bounded to 96 (quick) / 160 (thorough) bytes, i.e. up to 5 / 9 ACF '
        'messages per datagram (each consumes >= 16 bytes); longer datagrams are outside the explicit claim - the '
        'per-message code is the same; acf-vss-listener and cvf-listener: received length bounded to 128 / 160 bytes in the quick tier (symbolic-size copies and string scans over 1500 bytes exhaust memory), any length 0..1500 in the thorough tier; hello-world, aaf, crf: any length 0..1500',
        'scaled runs: with the guarded hook COVESA_OPEN1722_VERIF_MAX_PDU_SIZE / _DATA_LEN the receive buffer of acf-can / hello-world / acf-vss / cvf is shrunk to 112 / 72 / 72 / 60 bytes and EVERY received length up to the buffer size is covered (end-of-buffer cases); the unscaled runs use the real 1500-byte buffer with the bounds above',
        'reading stale (uninitialised) buffer bytes beyond the received length is tolerated (not an out-of-bounds '
        'access); reading beyond the buffer object is not']
    return chk.finish(
        rule='one query per listener and mode: the receive path is symbolically executed on an arbitrary datagram; '
             'obligations: all pointer/bounds/overflow checks, loop bounds (unwinding assertions), no fatal status '
             'for a bad datagram, every delivered datagram consumed',
        explanation='bounded symbolic execution of the unmodified example receive paths linked with the real library',
        trusted=TRUSTED + ['environment stubs of gen/listeners.py'], checker_cmd=CHECKER + ' -I/repo/examples <wrapper including the example .c>')
