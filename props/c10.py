"""C10 - VSS string-array packing round-trips and stays inside its buffers."""
import itertools
from .common import *
from gen import strarr as SA

SRC = ['src/avtp/acf/custom/Vss.c', 'src/avtp/Utils.c']


def build(tier, only, chk):
    jobs = []
    S, L = (2, 2) if tier == 'quick' else (2, 3)
    if tier == 'thorough':
        for be in (False, True):
            jobs.append(Job('c10.F.S%d.L%d.%s' % (S, L, 'be' if be else 'le'), SA.c10_functional(S, L), SRC, be=be,
                            unwind=max(70, S * (2 + L) + 16), timeout=1700, backend='kissat', object_bits=12,
                            meta={'strings': 'symbolic 0..%d' % S, 'string_length': 'symbolic 0..%d' % L,
                                  'requested_count': 'symbolic 0..%d' % (S + 2), 'layout': 'maximum-size buffers + guards'}))
    ES, EL = (3, 2) if tier == 'quick' else (4, 3)
    vecs = []
    for s in range(0, ES + 1):
        for v in itertools.product(range(EL + 1), repeat=s):
            vecs.append(v)
    for v in vecs:
        for req in sorted({max(len(v) - 1, 0), len(v), len(v) + 1, len(v) + 2}):
            jobs.append(Job('c10.E.%s.req%d' % ('-'.join(map(str, v)) or 'none', req), SA.c10_extent(list(v), req),
                            SRC, unwind=70, timeout=600, object_bits=12,
                            meta={'lengths': list(v), 'requested_count': req, 'layout': 'exact extent'}))
    # lengths around the 8-bit boundary of byte counters (total > 255) - cheap, concrete sizes
    for v in ([(254,), (255, 1)] if tier == 'quick' else [(253,), (254,), (300,), (128, 128), (255, 1), (100, 100, 100)]):
        for req in (len(v), len(v) + 2):
            jobs.append(Job('c10.E.%s.req%d' % ('-'.join(map(str, v)), req), SA.c10_extent(list(v), req), SRC,
                            unwind=max(70, sum(v) + 2 * len(v) + 24), timeout=900, object_bits=12, backend='kissat',
                            meta={'lengths': list(v), 'requested_count': req, 'layout': 'exact extent'}))
    jobs.append(Job('c10.count300', SA.c10_count_many(300), SRC, unwind=620, timeout=600,
                    meta={'strings': 300, 'string_length': 0}))
    return jobs


def run(tier, only=None):
    chk = Check('C10', tier)
    jobs = build(tier, only, chk)
    S, L = (2, 2) if tier == 'quick' else (2, 3)
    ES, EL = (3, 2) if tier == 'quick' else (4, 3)
    chk.run(jobs)
    chk.assumptions = STD_ASSUME + [
        'bounds: (F, thorough tier only) up to %d strings of up to %d bytes; (E) every length vector with up to %d strings of up to %d bytes; '
        'count-only query with 300 empty strings; totals up to 65535 bytes beyond that are outside the claim' % (S, L, ES, EL),
        'destinations are supplied by the caller as the header documents (struct per string, data pointer NULL for the length phase)']
    return chk.finish(
        rule='(F) symbolic count/lengths/bytes/requested count on maximum-size buffers; (E) one query per concrete '
             'length vector x requested count with packed array, sources and destinations of exact extent',
        explanation='symbolic execution of SerializeStringArray, GetVSSDataStringArrayLength, DeserializeStringArray',
        trusted=TRUSTED, checker_cmd=CHECKER)
