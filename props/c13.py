"""C13 - byte-order helpers convert correctly for every value (both #if branches)."""
from .common import *

SRC = r'''
#include "vp.h"
#include "avtp/Byteorder.h"
typedef struct { uint16_t a; uint32_t b; uint64_t c; } vp_in_t;
static void img(const void *p, uint8_t *o, unsigned n) { memcpy(o, p, n); }
void harness(void) {
  VP_INPUT(vp_in_t, in);
  uint8_t m[8];
  /* memory image of CpuToBe = big-endian byte sequence; CpuToLe = little-endian sequence */
  { uint16_t r = Avtp_CpuToBe16(in.a); img(&r, m, 2);
    VP_ASSERT(m[0] == (uint8_t)(in.a >> 8) && m[1] == (uint8_t)in.a, "C13 CpuToBe16 memory image is the big-endian byte sequence");
    r = Avtp_CpuToLe16(in.a); img(&r, m, 2);
    VP_ASSERT(m[1] == (uint8_t)(in.a >> 8) && m[0] == (uint8_t)in.a, "C13 CpuToLe16 memory image is the little-endian byte sequence");
    VP_ASSERT(Avtp_BeToCpu16(Avtp_CpuToBe16(in.a)) == in.a, "C13 BeToCpu16 inverts CpuToBe16");
    VP_ASSERT(Avtp_LeToCpu16(Avtp_CpuToLe16(in.a)) == in.a, "C13 LeToCpu16 inverts CpuToLe16");
    VP_ASSERT(Avtp_CpuToBe16(Avtp_BeToCpu16(in.a)) == in.a, "C13 CpuToBe16 inverts BeToCpu16");
    VP_ASSERT(Avtp_CpuToLe16(Avtp_LeToCpu16(in.a)) == in.a, "C13 CpuToLe16 inverts LeToCpu16");
    /* to-host from a wire image */
    uint8_t w[2] = { (uint8_t)(in.a >> 8), (uint8_t)in.a }; uint16_t x; memcpy(&x, w, 2);
    VP_ASSERT(Avtp_BeToCpu16(x) == in.a, "C13 BeToCpu16 of a big-endian memory image yields the value");
    uint8_t l[2] = { (uint8_t)in.a, (uint8_t)(in.a >> 8) }; memcpy(&x, l, 2);
    VP_ASSERT(Avtp_LeToCpu16(x) == in.a, "C13 LeToCpu16 of a little-endian memory image yields the value");
    VP_ASSERT(Avtp_Bswap16(Avtp_Bswap16(in.a)) == in.a, "C13 Bswap16 is an involution");
    uint16_t s = Avtp_Bswap16(in.a); uint8_t p[2], q[2]; img(&in.a, p, 2); img(&s, q, 2);
    VP_ASSERT(p[0] == q[1] && p[1] == q[0], "C13 Bswap16 reverses the bytes"); }
  { uint32_t r = Avtp_CpuToBe32(in.b); img(&r, m, 4); int ok = 1;
    for (int i = 0; i < 4; i++) if (m[i] != (uint8_t)(in.b >> (8 * (3 - i)))) ok = 0;
    VP_ASSERT(ok, "C13 CpuToBe32 memory image is the big-endian byte sequence");
    r = Avtp_CpuToLe32(in.b); img(&r, m, 4); ok = 1;
    for (int i = 0; i < 4; i++) if (m[i] != (uint8_t)(in.b >> (8 * i))) ok = 0;
    VP_ASSERT(ok, "C13 CpuToLe32 memory image is the little-endian byte sequence");
    VP_ASSERT(Avtp_BeToCpu32(Avtp_CpuToBe32(in.b)) == in.b, "C13 BeToCpu32 inverts CpuToBe32");
    VP_ASSERT(Avtp_LeToCpu32(Avtp_CpuToLe32(in.b)) == in.b, "C13 LeToCpu32 inverts CpuToLe32");
    VP_ASSERT(Avtp_CpuToBe32(Avtp_BeToCpu32(in.b)) == in.b, "C13 CpuToBe32 inverts BeToCpu32");
    VP_ASSERT(Avtp_CpuToLe32(Avtp_LeToCpu32(in.b)) == in.b, "C13 CpuToLe32 inverts LeToCpu32");
    uint8_t w[4]; for (int i = 0; i < 4; i++) w[i] = (uint8_t)(in.b >> (8 * (3 - i)));
    uint32_t x; memcpy(&x, w, 4);
    VP_ASSERT(Avtp_BeToCpu32(x) == in.b, "C13 BeToCpu32 of a big-endian memory image yields the value");
    for (int i = 0; i < 4; i++) w[i] = (uint8_t)(in.b >> (8 * i)); memcpy(&x, w, 4);
    VP_ASSERT(Avtp_LeToCpu32(x) == in.b, "C13 LeToCpu32 of a little-endian memory image yields the value");
    VP_ASSERT(Avtp_Bswap32(Avtp_Bswap32(in.b)) == in.b, "C13 Bswap32 is an involution");
    uint32_t s = Avtp_Bswap32(in.b); uint8_t p[4], q[4]; img(&in.b, p, 4); img(&s, q, 4); ok = 1;
    for (int i = 0; i < 4; i++) if (p[i] != q[3 - i]) ok = 0;
    VP_ASSERT(ok, "C13 Bswap32 reverses the bytes"); }
  { uint64_t r = Avtp_CpuToBe64(in.c); img(&r, m, 8); int ok = 1;
    for (int i = 0; i < 8; i++) if (m[i] != (uint8_t)(in.c >> (8 * (7 - i)))) ok = 0;
    VP_ASSERT(ok, "C13 CpuToBe64 memory image is the big-endian byte sequence");
    r = Avtp_CpuToLe64(in.c); img(&r, m, 8); ok = 1;
    for (int i = 0; i < 8; i++) if (m[i] != (uint8_t)(in.c >> (8 * i))) ok = 0;
    VP_ASSERT(ok, "C13 CpuToLe64 memory image is the little-endian byte sequence");
    VP_ASSERT(Avtp_BeToCpu64(Avtp_CpuToBe64(in.c)) == in.c, "C13 BeToCpu64 inverts CpuToBe64");
    VP_ASSERT(Avtp_LeToCpu64(Avtp_CpuToLe64(in.c)) == in.c, "C13 LeToCpu64 inverts CpuToLe64");
    VP_ASSERT(Avtp_CpuToBe64(Avtp_BeToCpu64(in.c)) == in.c, "C13 CpuToBe64 inverts BeToCpu64");
    VP_ASSERT(Avtp_CpuToLe64(Avtp_LeToCpu64(in.c)) == in.c, "C13 CpuToLe64 inverts LeToCpu64");
    uint8_t w[8]; for (int i = 0; i < 8; i++) w[i] = (uint8_t)(in.c >> (8 * (7 - i)));
    uint64_t x; memcpy(&x, w, 8);
    VP_ASSERT(Avtp_BeToCpu64(x) == in.c, "C13 BeToCpu64 of a big-endian memory image yields the value");
    for (int i = 0; i < 8; i++) w[i] = (uint8_t)(in.c >> (8 * i)); memcpy(&x, w, 8);
    VP_ASSERT(Avtp_LeToCpu64(x) == in.c, "C13 LeToCpu64 of a little-endian memory image yields the value");
    VP_ASSERT(Avtp_Bswap64(Avtp_Bswap64(in.c)) == in.c, "C13 Bswap64 is an involution");
    uint64_t s = Avtp_Bswap64(in.c); uint8_t p[8], q[8]; img(&in.c, p, 8); img(&s, q, 8); ok = 1;
    for (int i = 0; i < 8; i++) if (p[i] != q[7 - i]) ok = 0;
    VP_ASSERT(ok, "C13 Bswap64 reverses the bytes"); }
  VP_REACH("c13 end");
}
'''


def build(tier, only, chk):
    jobs = [Job('c13.byteorder.%s' % ('be' if be else 'le'), SRC, [], be=be, unwind=12,
                meta={'domain': 'all 2^16, 2^32, 2^64 values', 'host': 'big' if be else 'little'})
            for be in (False, True)]
    return jobs


def run(tier, only=None):
    chk = Check('C13', tier)
    jobs = build(tier, only, chk)
    chk.run(jobs)
    chk.assumptions = STD_ASSUME + ['the big-endian #if branch is compiled with __BYTE_ORDER__ forced to '
                                    '__ORDER_BIG_ENDIAN__ and executed on CBMC\'s big-endian memory model; '
                                    'mirror-image claim = both branches satisfy the same byte-level specification']
    return chk.finish(
        rule='two queries (host little / host big); 39 obligations each: memory image of every CpuTo*, inverse laws, '
             'to-host from a wire image, swap involution and byte reversal, over all values',
        explanation='the 15 inline helpers are symbolically executed through stores/loads of real objects',
        trusted=TRUSTED, checker_cmd=CHECKER)
