"""C08 - VSS decoding inverts encoding and honours the length-query convention."""
from .common import *
from . import c07


def run(tier, only=None):
    chk = Check('C08', tier)
    jobs, (P, D, EP, EE) = c07.jobs_for(tier, only, 'c08')
    chk.run(jobs)
    chk.assumptions = STD_ASSUME + [
        'bounds: (F) path length 0..%d, value 0..%d bytes; (E) every (path 0..%d, count 0..%d) pair; longer values outside the claim' % (P, D, EP, EE),
        'well-formed messages come from the reference encoder (F) and from the library encoder (E, after it is '
        'shown equal to the reference); encode-then-decode identity follows from C07 (library bytes == reference '
        'bytes) and this check (decode of reference bytes == original)',
        'result objects are supplied by the caller as the header documents: the struct, and in phase 2 a '
        'destination of the reported length; the interop path destination has the path length']
    return chk.finish(
        rule='one (F) query per datatype x address mode (x byte order): decode of a reference-encoded message '
             'returns the original path/value bit for bit, length query writes only the length, nothing beyond the '
             'reported length is written, message unchanged; (E) exact-extent message and destinations per concrete size pair',
        explanation='symbolic execution of GetVssPath, GetVssData, CalcVssPathLength',
        trusted=TRUSTED, checker_cmd=CHECKER)
