"""C08 - VSS decoding inverts encoding and honours the length-query convention."""
from .common import *
from . import c07


def run(tier, only=None):
    chk = Check('C08', tier)
    jobs, (P, D, EP, EE) = c07.jobs_for(tier, only, 'c08')
    if not only or 'sequence' in only or 'all' in only:
        from gen import vss as V
        from spec import wire_spec as W
        seqs = [(0x04, (0, 0), (3, 7), 1), (0x0B, (0, 0, 0), (5, 2, 5), 4), (0x82, (0, 1, 0), (1, 0, 6), 2), (0x0A, (1, 0), (0, 4), 1)]
        if tier == 'thorough':
            seqs += [(c, (0, 0, 1, 0), (2, 9, 0, 3), 2) for c in sorted(W.VSS_TYPES)]
        for code, modes, plens, cnt in seqs:
            src, M = V.c08_sequence(code, modes, plens, cnt)
            jobs.append(Job('c08.sequence.%s.%s' % (W.VSS_TYPES[code][0], '-'.join('%s%d' % ('i' if m == 0 else 's', p) for m, p in zip(modes, plens))),
                            src, c07.SRC, unwind=max(70, M + 8), unwindset=WALKER, timeout=900, object_bits=12, backend='kissat',
                            loop_policy=c07.codec_loop_policy(W.VSS_TYPES[code][0], cnt + 2),
                            meta={'sequence': 'messages decoded one after the other at the same buffer address',
                                  'datatype': W.VSS_TYPES[code][0], 'path_lengths': list(plens)}))
    chk.run(jobs)
    chk.assumptions = STD_ASSUME + [
        'bounds: (F) path length 0..%d, value 0..%d bytes; (E) every (path 0..%d, count 0..%d) pair; longer values outside the claim' % (P, D, EP, EE),
        'well-formed messages come from the reference encoder (F) and from the library encoder (E, after it is '
        'shown equal to the reference); encode-then-decode identity follows from C07 (library bytes == reference '
        'bytes) and this check (decode of reference bytes == original)',
        'result objects are supplied by the caller as the header documents: the struct, and in phase 2 a '
        'destination of the reported length; the interop path destination has the path length']
    return chk.finish(
        rule='one (F) query per datatype x address mode (x byte order): decode of a reference-encoded message '
             'returns the original path/value bit for bit, length query writes only the length, nothing beyond the '
             'reported length is written, message unchanged; (E) exact-extent message and destinations per concrete size pair',
        explanation='symbolic execution of GetVssPath, GetVssData, CalcVssPathLength',
        trusted=TRUSTED, checker_cmd=CHECKER)
