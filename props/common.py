from engine.core import Job
from engine.report import Check
from gen import binding as B

TRUSTED = ['CBMC 6.11.0 (goto-cc front end, symbolic execution, bit-blasting, MiniSat/CaDiCaL/kissat)',
           'spec/wire_spec.py: hand-written oracle from IEEE 1722-2016 / acf-vss.md',
           'harness/vp.h reference bit reader/writer (6-line loops over bytes)',
           'gcc + ASan/UBSan for native replay of counterexamples']
STD_ASSUME = ['malloc never fails (--no-malloc-may-fail); allocation failure is outside every property',
              'CBMC memory model: byte-addressed, alignment-agnostic (alignment is decided by C15)']
CHECKER = ('goto-cc -I/repo/include <generated harness>.c <src/avtp/*.c> ; cbmc --function harness '
           '--unwinding-assertions --pointer-overflow-check --undefined-shift-check --signed-overflow-check '
           '--bounds-check --pointer-check --drop-unused-functions --no-malloc-may-fail --unwind N [--unwindset ...]')
WALKER = {'Avtp_GetField.0': 4, 'Avtp_SetField.0': 4}


def formats(only):
    fs = B.all_formats()
    if only:
        want = set(only.split(','))
        fs = [f for f in fs if f in want]
    return fs


def bindings(only, chk):
    out = []
    for f in formats(only):
        b = B.bind(f)
        chk.uncovered += ['%s:%s' % (f, u) for u in b.uncovered]
        out.append(b)
    return out
