"""C01 - field reads return exactly the field's bits (all formats, all buffers, LE+BE)."""
from .common import *
from gen import fields as G


def build(tier, only, chk):
    jobs = []
    for b in bindings(only, chk):
        src, n = G.c01_reads(b)
        for be in (False, True):
            jobs.append(Job('c01.%s.%s' % (b.fmt, 'be' if be else 'le'), src, b.sources, be=be,
                            unwind=70, unwindset=WALKER,
                            meta={'format': b.fmt, 'buffer_bytes': b.spec_len, 'reads': n,
                                  'domain': 'all 2^%d buffers' % (8 * b.spec_len)}))
    if not only or 'descriptor' in (only or ''):
        offs = range(32) if tier == 'thorough' else [0, 3, 16, 29, 31]
        for off in offs:
            jobs.append(Job('c01.descriptor.off%02d' % off, G.descriptor_sweep('get', off),
                            ['src/avtp/Utils.c'], unwind=70, unwindset=WALKER, timeout=1500,
                            meta={'descriptor': 'quadlet<4, offset=%d, bits<=64, symbolic' % off,
                                  'buffer_bytes': 28}))
    return jobs


def run(tier, only=None):
    chk = Check('C01', tier)
    jobs = build(tier, only, chk)
    chk.run(jobs)
    chk.assumptions = STD_ASSUME + [
        'descriptor sweep (quick: bit offsets 0, 3, 16, 29, 31; thorough: every offset 0..31) bounded to start quadlet 0..3; the walker arithmetic depends on the quadlet only through 4*q']
    return chk.finish(
        rule='one query per format and byte order; each obligation is one (field, access path) compared with the '
             'byte-level oracle over ALL buffer contents; distinct = distinct oracle assertions',
        explanation='bit-precise symbolic execution of the real getters on an exact-extent object; loops fully '
                    'unwound (unwinding assertions proved), so each verdict covers every buffer content',
        trusted=TRUSTED, checker_cmd=CHECKER)
