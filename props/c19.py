"""C19 - the example CAN tunnel is transparent: talker packet builder -> wire bytes -> listener."""
import glob
import os
from .common import *
from engine import core
from gen import listeners as L

LIB = sorted(os.path.relpath(p, core.REPO) for p in glob.glob(os.path.join(core.REPO, 'src/avtp/**/*.c'), recursive=True))


def build(tier, only, chk):
    """scaled queries (guarded hook COVESA_OPEN1722_VERIF_MAX_PDU_SIZE shrinks the talker's transmit buffer, the
    listener's receive buffer and the wire buffer to just fit n maximal frames) are the work-horse: every length
    symbolic.  The real 1500-byte buffers are used in the thorough tier (minutes and tens of GB per query)."""
    import itertools
    jobs = []

    def mk(name, n, tscf, udp, fd, fixed, size, mem, timeout=1800):
        if only and not any(o in name for o in only.split(',')):
            return
        src, extra = L.c19_tunnel(n, tscf, udp, fd, fixed)
        us = dict(WALKER)
        us.update({'recv.0': 1502, 'write.0': 80, 'new_packet.0': n + 2, 'harness.0': 1502, 'harness.1': 1502,
                   'harness.2': 1502, 'harness.3': 1502, 'harness.4': 1502, 'talker_main.0': n + 2,
                   'talker_main.1': n + 2, 'sendto.0': 1502})
        defs = ['VP_DG_MAX=%d' % size, 'COVESA_OPEN1722_VERIF_MAX_PDU_SIZE=%d' % size] if size else []
        jobs.append(Job(name, src, LIB, incs=['examples'], extra_sources=extra, unwind=70, unwindset=us,
                        timeout=timeout, backend='cadical', mem_gb=mem, defines=defs,
                        meta={'frames_per_packet': n, 'control_format': 'TSCF' if tscf else 'NTSCF',
                              'transport': 'UDP' if udp else 'raw', 'variant': 'FD' if fd else 'classic',
                              'buffers': ('scaled to %d bytes via the guarded hook' % size) if size else 'real size (1500 bytes)',
                              'lengths_of_leading_frames': list(fixed) or 'symbolic',
                              'domain': 'all ids incl. EFF/RTR, all data, all FD flags; last frame length symbolic 0..%d' % (64 if fd else 8)}))

    for tscf in (0, 1):
        for udp in (0, 1):
            for fd in (0, 1):
                tag = '%s.%s.%s' % ('tscf' if tscf else 'ntscf', 'udp' if udp else 'raw', 'fd' if fd else 'classic')
                fmax = 64 if fd else 8

                def size_for(n):
                    return (28 + n * (16 + fmax + 3) + 15) // 16 * 16
                # 1 frame per packet, everything symbolic
                mk('c19.tunnel.%s.n1.scaled%d' % (tag, size_for(1)), 1, tscf, udp, fd, (), size_for(1), 12)
                # 2 frames per packet
                if not fd:
                    mk('c19.tunnel.%s.n2.scaled%d' % (tag, size_for(2)), 2, tscf, udp, fd, (), size_for(2), 12)
                else:
                    for ln in ([5] if tier == 'quick' else [0, 1, 5, 8, 12, 33, 63, 64]):
                        mk('c19.tunnel.%s.n2.len%d.scaled%d' % (tag, ln, size_for(2)), 2, tscf, udp, fd, (ln,), size_for(2), 12)
                if tier == 'thorough':
                    if not fd:
                        for a, b2 in itertools.product((0, 3, 8), repeat=2):
                            mk('c19.tunnel.%s.n3.len%d-%d.scaled%d' % (tag, a, b2, size_for(3)), 3, tscf, udp, fd, (a, b2), size_for(3), 16)
                    # real buffer sizes
                    mk('c19.tunnel.%s.n1.real' % tag, 1, tscf, udp, fd, (), 0, 30, 3000)
                    mk('c19.tunnel.%s.n2.len%d.real' % (tag, 5 if fd else 3), 2, tscf, udp, fd, (5 if fd else 3,), 0, 36, 3000)
    return jobs


def run(tier, only=None):
    chk = Check('C19', tier)
    chk.run(build(tier, only, chk))
    chk.assumptions = STD_ASSUME + [
        'valid input = what SocketCAN delivers: no error frames, 11-bit identifiers unless EFF is set, length within '
        'the variant (8 / 64), FD flags within BRS|ESI',
        'the talker side is the REAL main() of acf-can-talker.c: read() hands it the symbolic CAN frames, sendto() captures the '
        'packet and ends the endless loop; the listener side is new_packet(); the transmit buffer is the talker\'s own local array',
        'clock fixed (the message timestamp does not reach the CAN frame); modes concrete per query',
        'frames per packet: 1 (everything symbolic), 2 classic frames with both lengths symbolic, 2 FD frames / 3 classic frames with the lengths of the leading frames enumerated concretely (nested symbolic offsets exhaust memory: measured 40 GB); more frames add no new code path',
        'quick tier: buffers scaled with the guarded hook COVESA_OPEN1722_VERIF_MAX_PDU_SIZE (talker transmit buffer, listener receive buffer, wire) to just fit n maximal frames; thorough adds the real 1500-byte buffers',
        'FDF: the CAN FD variant is a property of the tunnel configuration (--fd on both sides), CANFD_FDF in '
        'canfd_frame.flags is ignored by the kernel on write; compared flags are BRS and ESI']
    return chk.finish(
        rule='one query per (control format, transport, variant, frames per packet): symbolic CAN frames through the '
             'real talker builder, the produced bytes through the real listener, captured write() frames compared '
             'field by field; control-format length field compared with the sum of padded message sizes',
        explanation='end-to-end symbolic execution of the unmodified example talker and listener code with the real library in between',
        trusted=TRUSTED + ['environment stubs of gen/listeners.py'], checker_cmd=CHECKER + ' -I/repo/examples')
