"""C19 - the example CAN tunnel is transparent: talker packet builder -> wire bytes -> listener."""
import glob
import os
from .common import *
from engine import core
from gen import listeners as L

LIB = sorted(os.path.relpath(p, core.REPO) for p in glob.glob(os.path.join(core.REPO, 'src/avtp/**/*.c'), recursive=True))


def build(tier, only, chk):
    jobs = []
    ns = [1, 2] if tier == 'quick' else [1, 2, 3]
    for n in ns:
        for tscf in (0, 1):
            for udp in (0, 1):
                for fd in (0, 1):
                    if n == 1:
                        variants = [()]
                    else:
                        lens = ([3] if not fd else [5]) if tier == 'quick' else \
                               (list(range(0, 9)) if not fd else [0, 1, 2, 3, 4, 7, 8, 12, 16, 20, 24, 32, 48, 63, 64])
                        import itertools
                        variants = list(itertools.product(lens, repeat=n - 1)) if n == 2 else \
                            [(a, b) for a in lens[::3] for b in lens[1::3]]
                    for fixed in variants:
                        name = 'c19.tunnel.%s.%s.%s.n%d%s' % ('tscf' if tscf else 'ntscf', 'udp' if udp else 'raw',
                                                             'fd' if fd else 'classic', n,
                                                             ''.join('.len%d' % x for x in fixed))
                        if only and not any(o in name for o in only.split(',')):
                            continue
                        if tier == 'quick' and n == 2 and not (fd and tscf == 0 and udp == 0) and not (not fd and tscf == 1 and udp == 1):
                            continue          # quick: two frames per packet in one FD and one classic mode
                        src, extra = L.c19_tunnel(n, tscf, udp, fd, fixed)
                        us = dict(WALKER)
                        us.update({'recv.0': 1502, 'write.0': 80, 'new_packet.0': n + 2, 'harness.0': 70,
                                   'harness.1': 70, 'harness.2': 70, 'vp_talker_build.0': n + 1})
                        jobs.append(Job(name, src, LIB, incs=['examples'], extra_sources=extra, unwind=70, unwindset=us,
                                        timeout=1700, backend='cadical', mem_gb=(12 if n == 1 else 24),
                                        meta={'frames_per_packet': n, 'control_format': 'TSCF' if tscf else 'NTSCF',
                                              'transport': 'UDP' if udp else 'raw', 'variant': 'FD' if fd else 'classic',
                                              'lengths_of_leading_frames': list(fixed) or 'n/a',
                                              'domain': 'all ids incl. EFF/RTR, all data, all FD flags, arbitrary transmit buffer; '
                                                        'length of the last frame symbolic 0..%d' % (64 if fd else 8)}))
    # ---- scaled model (guarded hook shrinks the listener's receive buffer; the wire buffer shrinks with it):
    # ALL frame lengths symbolic, which the 1500-byte buffers do not permit for more than one frame
    for n in ((2, 3) if tier == 'quick' else (2, 3, 4)):
        for tscf in (0, 1):
            for udp in (0, 1):
                for fd in (0, 1):
                    size = 28 + n * (16 + (64 if fd else 8))
                    size = (size + 15) // 16 * 16
                    if tier == 'quick' and (fd or n > 2):
                        continue          # quick: classic frames, 2 per packet; the rest needs minutes and > 16 GB
                    if fd and n > 2:
                        continue
                    name = 'c19.tunnel.%s.%s.%s.n%d.scaled%d' % ('tscf' if tscf else 'ntscf', 'udp' if udp else 'raw',
                                                                'fd' if fd else 'classic', n, size)
                    if only and not any(o in name for o in only.split(',')):
                        continue
                    src, extra = L.c19_tunnel(n, tscf, udp, fd, ())
                    us = dict(WALKER)
                    us.update({'recv.0': size + 2, 'write.0': 80, 'new_packet.0': n + 2, 'harness.0': 70, 'harness.1': 70,
                               'harness.2': 70, 'vp_talker_build.0': n + 1})
                    jobs.append(Job(name, src, LIB, incs=['examples'], extra_sources=extra, unwind=70, unwindset=us,
                                    timeout=2400, backend='cadical', mem_gb=(16 if (n == 2 and not fd) else 36),
                                    defines=['VP_DG_MAX=%d' % size, 'COVESA_OPEN1722_VERIF_MAX_PDU_SIZE=%d' % size],
                                    meta={'frames_per_packet': n, 'control_format': 'TSCF' if tscf else 'NTSCF',
                                          'transport': 'UDP' if udp else 'raw', 'variant': 'FD' if fd else 'classic',
                                          'scaled_buffers': size, 'hook': 'COVESA_OPEN1722_VERIF_MAX_PDU_SIZE',
                                          'domain': 'ALL frame lengths symbolic, all ids/flags/data'}))
    return jobs


def run(tier, only=None):
    chk = Check('C19', tier)
    chk.run(build(tier, only, chk))
    chk.assumptions = STD_ASSUME + [
        'valid input = what SocketCAN delivers: no error frames, 11-bit identifiers unless EFF is set, length within '
        'the variant (8 / 64), FD flags within BRS|ESI',
        'the talker side is the body of acf-can-talker.c\'s sending loop (UDP header, init_cf_pdu, n x prepare_acf_packet, '
        'update_cf_length) re-stated in the wrapper around the unmodified source; the listener side is new_packet()',
        'clock fixed (the message timestamp does not reach the CAN frame); modes concrete per query',
        'frames per packet: 1 (all lengths symbolic) and 2 (thorough: 3) with the lengths of all but the last frame enumerated concretely (symbolic offsets into the 1500-byte buffers exhaust memory: measured 40 GB); more frames add no new code path',
        'scaled runs: the guarded hook COVESA_OPEN1722_VERIF_MAX_PDU_SIZE shrinks the listener receive buffer (and the wire buffer with it) to just fit n maximal frames; then ALL frame lengths are symbolic for 2 and 3 (thorough 4) frames per packet',
        'FDF: the CAN FD variant is a property of the tunnel configuration (--fd on both sides), CANFD_FDF in '
        'canfd_frame.flags is ignored by the kernel on write; compared flags are BRS and ESI']
    return chk.finish(
        rule='one query per (control format, transport, variant, frames per packet): symbolic CAN frames through the '
             'real talker builder, the produced bytes through the real listener, captured write() frames compared '
             'field by field; control-format length field compared with the sum of padded message sizes',
        explanation='end-to-end symbolic execution of the unmodified example talker and listener code with the real library in between',
        trusted=TRUSTED + ['environment stubs of gen/listeners.py'], checker_cmd=CHECKER + ' -I/repo/examples')
