"""C17 - overlapping header views agree."""
from .common import *
from gen import views as V
from spec import wire_spec as W


def build(tier, only, chk):
    jobs = []
    for gi, g in enumerate(W.SHARE_GROUPS):
        name = g[0][1] if len({n for _, n in g}) == 1 else '%s-%s' % (g[0][1], g[1][1])
        if only and name not in only.split(','):
            continue
        src, srcs, n, L, extra = V.c17_group(gi, g)
        for be in (False, True):
            jobs.append(Job('c17.%s.%s.%s' % (g[0][0], name, 'be' if be else 'le'), src, srcs, be=be, unwind=70,
                            unwindset=WALKER, timeout=1200, extra_sources=extra,
                            meta={'group': ['%s.%s' % x for x in g], 'pairs': n, 'buffer_bytes': L,
                                  'domain': 'all buffers x all 64-bit values'}))
    return jobs


def run(tier, only=None):
    chk = Check('C17', tier)
    jobs = build(tier, only, chk)
    chk.run(jobs)
    chk.assumptions = STD_ASSUME + ['sharing groups are exactly the ones the property names (spec/wire_spec.py SHARE_GROUPS)']
    return chk.finish(
        rule='one query per sharing group and byte order; every unordered pair of views: read/read, write/write '
             '(generic and dedicated), write/read-through-the-other-view, pinned to the oracle position',
        explanation='relational symbolic check of the real accessors of two formats on the same bytes',
        trusted=TRUSTED, checker_cmd=CHECKER)
