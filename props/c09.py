"""C09 - VSS finalisation pads to a quadlet and records length and pad correctly."""
from .common import *
from gen import vsspad as V
from spec import wire_spec as W

SRC = ['src/avtp/acf/custom/Vss.c', 'src/avtp/Utils.c']


def build(tier, only, chk):
    jobs = []
    nmaxs = [96] if tier == 'quick' else [96, W.ACF_MAX_BYTES]
    for nmax in nmaxs:
        for be in (False, True):
            if be and nmax > 96:
                continue
            jobs.append(Job('c09.F.n12-%d.%s' % (nmax, 'be' if be else 'le'), V.c09_functional(nmax), SRC, be=be,
                            unwind=max(70, nmax + 16), unwindset=WALKER, timeout=3000 if nmax > 96 else 600,
                            backend='cadical', object_bits=12, mem_gb=24,
                            meta={'message_length': 'symbolic 12..%d' % nmax, 'background': 'all contents',
                                  'layout': 'maximum-size object + 3 pad + 8 guard bytes'}))
    BOUNDARY = [253, 254, 255, 256, 257, 258, 1019, 1020, 1021, 1022, 1023, 1024, 1025, 2040, 2041, 2042, 2043, 2044]
    ns = (list(range(12, 97)) if tier == 'quick' else list(range(12, 161))) + BOUNDARY
    for n in ns:
        jobs.append(Job('c09.E.n%d' % n, V.c09_extent(n), SRC, unwind=max(70, n + 16), unwindset=WALKER,
                        timeout=600, object_bits=12,
                        meta={'message_length': n, 'object_bytes': n + (4 - n % 4) % 4, 'layout': 'exact extent'}))
    for be in (False, True):
        jobs.append(Job('c09.length-accessors.%s' % ('be' if be else 'le'), V.c09_length_accessors(), SRC, be=be,
                        unwind=70, unwindset=WALKER, meta={'values': 'all 512 length-field values'}))
    return jobs


def run(tier, only=None):
    chk = Check('C09', tier)
    jobs = build(tier, only, chk)
    chk.run(jobs)
    chk.assumptions = STD_ASSUME + ['message lengths 12..2044 (ACF maximum); lengths below the 12-byte fixed header are not messages',
                                    '(E) exact-extent queries: quick every n in 12..96, thorough 12..160, both plus the type-boundary lengths around 255/256, 1020..1025 and 2040..2044']
    return chk.finish(
        rule='(F) symbolic message length on a maximum-size object, whole object compared with the reference; '
             '(E) one query per concrete length on an object of exactly n+pad bytes; all 512 length values through '
             'the dedicated accessors',
        explanation='symbolic execution of Avtp_Vss_Pad and the dedicated length accessors',
        trusted=TRUSTED, checker_cmd=CHECKER)
