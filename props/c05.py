"""C05 - a PDU behaves as a record of independent fields under any history of operations."""
from .common import *
from gen import history as H

HEAVY = ('rvf', 'cvf', 'aaf', 'pcm', 'crf', 'tscf', 'flexray', 'most', 'can')


def build(tier, only, chk):
    jobs = []
    for b in bindings(only, chk):
        k = 2 if tier == 'quick' else 3
        src, nops = H.c05_history(b, k)
        jobs.append(Job('c05.%s.history.k%d' % (b.fmt, k), src, b.sources, unwind=70, unwindset=WALKER,
                        timeout=1700 if tier == 'thorough' else 600, backend='cadical',
                        meta={'format': b.fmt, 'steps': k, 'buffers': 2, 'operations_per_step': nops,
                              'entry_points': 'generic/dedicated/legacy chosen symbolically per step',
                              'domain': 'all initial contents x all op sequences of length %d x all values' % k}))
        if tier == 'thorough':
            jobs.append(Job('c05.%s.history.k2.be' % b.fmt, H.c05_history(b, 2)[0], b.sources, be=True, unwind=70,
                            unwindset=WALKER, timeout=900, backend='cadical',
                            meta={'format': b.fmt, 'steps': 2, 'buffers': 2}))
            if b.fmt in HEAVY:
                for rot in range(3):
                    jobs.append(Job('c05.%s.history.k4.rot%d' % (b.fmt, rot), H.c05_history(b, 4, 'rotate', rot)[0],
                                    b.sources, unwind=70, unwindset=WALKER, timeout=1700, backend='kissat',
                                    meta={'format': b.fmt, 'steps': 4, 'buffers': 2,
                                          'entry_points': 'fixed per field, rotation %d of generic/dedicated/legacy' % rot}))
        jobs.append(Job('c05.%s.algebra' % b.fmt, H.c05_algebra(b), b.sources, unwind=70, unwindset=WALKER,
                        timeout=900, backend='cadical',
                        meta={'format': b.fmt, 'domain': 'symbolic field ids f,g in range, all values, all buffers'}))
    return jobs


def run(tier, only=None):
    chk = Check('C05', tier)
    jobs = build(tier, only, chk)
    chk.run(jobs)
    chk.assumptions = STD_ASSUME + [
        'histories longer than the explicit bound rest on induction: step lemma (C02/C04: post-state == reference '
        'applied to an ARBITRARY pre-state, every entry point) + frame condition (C16: no state outside the '
        'argument objects); the bounded run guards the induction',
        'two buffers of one format per query; cross-format interleaving rests on the frame condition (C16)']
    return chk.finish(
        rule='per format: one k-step history query (k=2 quick, 3 thorough; two buffers; op, field, entry point, '
             'buffer and value symbolic per step) compared with the reference image, plus an algebra query '
             '(commutation f!=g, idempotence, last-write-wins) with symbolic field ids',
        explanation='bounded symbolic exploration of operation histories from an arbitrary initial state + '
                    'inductive step lemma; unbounded-length claim is an induction argument, not an exploration',
        trusted=TRUSTED, checker_cmd=CHECKER)
