"""C04 - initialisers yield the canonical header whatever the buffer held."""
from .common import *
from gen import fields as G


def build(tier, only, chk):
    jobs = []
    for b in bindings(only, chk):
        src, n = G.c04_init(b)
        if n == 0:
            continue
        for be in (False, True):
            jobs.append(Job('c04.%s.%s' % (b.fmt, 'be' if be else 'le'), src, b.sources, be=be,
                            unwind=70, unwindset=WALKER,
                            meta={'format': b.fmt, 'buffer_bytes': b.spec_len, 'initialisers': n,
                                  'domain': 'all 2^%d prior contents' % (8 * b.spec_len)}))
    return jobs


def run(tier, only=None):
    chk = Check('C04', tier)
    jobs = build(tier, only, chk)
    chk.run(jobs)
    chk.assumptions = STD_ASSUME
    return chk.finish(
        rule='one query per format with an initialiser (current and legacy) and byte order; obligations: canonical '
             'image, idempotence, return value; object is exactly the oracle header length so that touching a '
             'trailing byte fails a pointer check',
        explanation='symbolic execution of the real initialisers from an arbitrary prior buffer state',
        trusted=TRUSTED, checker_cmd=CHECKER)
