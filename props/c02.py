"""C02 - field writes store v mod 2^w in exactly the field's bits (all formats, LE+BE)."""
from .common import *
from gen import fields as G


def build(tier, only, chk):
    jobs = []
    for b in bindings(only, chk):
        src, n = G.c02_writes(b)
        for be in (False, True):
            jobs.append(Job('c02.%s.%s' % (b.fmt, 'be' if be else 'le'), src, b.sources, be=be,
                            unwind=70, unwindset=WALKER,
                            meta={'format': b.fmt, 'buffer_bytes': b.spec_len, 'writes': n,
                                  'domain': 'all 2^%d prior contents x all 2^64 values' % (8 * b.spec_len)}))
    if not only or 'descriptor' in (only or ''):
        offs = range(32) if tier == 'thorough' else [0, 3, 16, 29, 31]
        for off in offs:
            jobs.append(Job('c02.descriptor.off%02d' % off, G.descriptor_sweep('set', off),
                            ['src/avtp/Utils.c'], unwind=70, unwindset=WALKER, timeout=1500,
                            meta={'descriptor': 'quadlet<4, offset=%d, bits<=64, symbolic' % off,
                                  'buffer_bytes': 28}))
    return jobs


def run(tier, only=None):
    chk = Check('C02', tier)
    jobs = build(tier, only, chk)
    chk.run(jobs)
    chk.assumptions = STD_ASSUME + [
        'dedicated setters are called with an unrestricted 64-bit value; the implicit conversion to the '
        'parameter type happens at the call as in user code',
        'descriptor sweep (quick: bit offsets 0, 3, 16, 29, 31; thorough: every offset 0..31) bounded to start quadlet 0..3']
    return chk.finish(
        rule='one query per format and byte order; each obligation compares the whole exact-extent object after one '
             'write (generic or dedicated) with the reference writer, plus read-back; all prior contents x all values',
        explanation='bit-precise symbolic execution of the real setters; object is exactly the header, so a write '
                    'outside it fails a pointer check; loops fully unwound',
        trusted=TRUSTED, checker_cmd=CHECKER)
