"""C06 - ACF-CAN message builders emit a well-formed, exactly padded message."""
from .common import *
from gen import can as C
from spec import wire_spec as W

SRC = {'can': ['src/avtp/acf/Can.c', 'src/avtp/Utils.c'],
       'can_brief': ['src/avtp/acf/CanBrief.c', 'src/avtp/acf/Can.c', 'src/avtp/Utils.c']}


def build(tier, only, chk):
    jobs = []
    for fmt in ('can', 'can_brief'):
        if only and fmt not in only.split(','):
            continue
        H = W.FORMATS[fmt]['len']
        lmaxs = [64] if tier == 'quick' else [64, W.ACF_MAX_BYTES - H]
        for lmax in lmaxs:
            for be in (False, True):
                if be and lmax > 64:
                    continue
                jobs.append(Job('c06.%s.F.len0-%d.%s' % (fmt, lmax, 'be' if be else 'le'),
                                C.c06_functional(fmt, lmax), SRC[fmt], be=be, unwind=max(70, lmax + H + 16),
                                unwindset=WALKER, timeout=3000 if lmax > 64 else 600, backend=('cadical' if lmax <= 64 else None),
                                object_bits=12, mem_gb=(12 if lmax <= 64 else 40),
                                meta={'format': fmt, 'payload_length': 'symbolic 0..%d' % lmax,
                                      'identifier': 'all 2^32', 'variant': 'both', 'background': 'all contents',
                                      'layout': 'maximum-size object + 8 guard bytes'}))
        top = 64 if tier == 'quick' else 128
        lens = list(range(0, top + 1))
        lens += [W.ACF_MAX_BYTES - H - k for k in range(0, 5)] + [236, 237, 238, 239, 240, 241, 247, 248, 249, 253,
                                                                   254, 255, 256, 257, 1021, 1022, 1023, 1024, 1025]
        for ln in sorted(set(lens)):
            pad = (4 - ln % 4) % 4
            jobs.append(Job('c06.%s.E.len%d' % (fmt, ln), C.c06_extent(fmt, ln), SRC[fmt],
                            unwind=max(70, H + ln + 16), unwindset=WALKER, timeout=600, object_bits=12,
                            meta={'format': fmt, 'payload_length': ln, 'message_object_bytes': H + ln + pad,
                                  'payload_object_bytes': ln, 'layout': 'exact extent'}))
    return jobs


def run(tier, only=None):
    chk = Check('C06', tier)
    jobs = build(tier, only, chk)
    chk.run(jobs)
    chk.assumptions = STD_ASSUME + [
        'payload_length beyond what the 9-bit length field can express (message > 2044 bytes) is outside the claim',
        'NULL arguments are outside this property (builders document non-NULL)',
        'exact-extent (E) queries: quick every length 0..64, thorough 0..128, both plus type-boundary lengths (message length 255/256 bytes, payload 253..257, 1021..1025, and the ACF maximum)']
    return chk.finish(
        rule='(F) one query per builder with SYMBOLIC payload length on a maximum-size object (whole object compared '
             'with the reference message); (E) one query per concrete length with message and payload objects of '
             'exact extent (any access outside them fails a pointer check)',
        explanation='symbolic execution of CreateAcfMessage/SetPayload/Finalize/GetCanPayloadLength and the brief builder',
        trusted=TRUSTED, checker_cmd=CHECKER)
