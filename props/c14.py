"""C14 - wire bytes do not depend on host endianness: every harness of C01-C10, C12, C13, C17 is
built in the big-endian configuration (goto-cc --big-endian + the big-endian preprocessor branch)
and must discharge the same byte-level oracle assertions as in the little-endian configuration."""
import copy
from .common import *
from engine import core
from gen import fields as G
from . import c01, c02, c03, c04, c05, c06, c07, c08, c09, c10, c12, c13, c17


def be_clone(j):
    c = copy.copy(j)
    c.name = 'c14.' + j.name.replace('.le', '') + '.be'
    c.be = True
    c.unwindset = dict(j.unwindset)
    c.meta = dict(j.meta, host='big-endian model')
    return c


def collect(tier, only, chk):
    out = []
    mods = [('C01', c01), ('C02', c02), ('C03', c03), ('C04', c04), ('C05', c05), ('C06', c06), ('C09', c09),
            ('C10', c10), ('C12', c12), ('C13', c13), ('C17', c17)]
    per = {}
    for pid, m in mods:
        js = m.build(tier, only, chk)
        have_be = [j for j in js if j.be]
        le_only = [j for j in js if not j.be and not any(b.name == j.name[:-3] + '.be' for b in have_be if j.name.endswith('.le'))]
        sel = list(have_be)
        if tier == 'thorough':
            sel += [be_clone(j) for j in le_only]
        else:
            # quick: BE twins of a deterministic sample of the little-endian-only queries
            step = max(1, len(le_only) // 12)
            sel += [be_clone(j) for j in le_only[::step][:12]]
        for j in sel:
            if not j.name.startswith('c14.'):
                j.name = 'c14.' + j.name
        per[pid] = len(sel)
        out += sel
    for pid, kind in (('C07', 'c07'), ('C08', 'c08')):
        js, _ = c07.jobs_for(tier, only, kind)
        have_be = [j for j in js if j.be]
        le_only = [j for j in js if not j.be and '.F.' not in j.name]
        sel = list(have_be)
        if tier == 'thorough':
            sel += [be_clone(j) for j in le_only]
        else:
            step = max(1, len(le_only) // 24)
            sel += [be_clone(j) for j in le_only[::step][:24]]
        # quick tier of C07/C08 skips the BE (F) query of byte-wide variable types: add them here
        if tier == 'quick':
            names = {j.name for j in js}
            for j in js:
                if '.F.le' in j.name and j.name.replace('.F.le', '.F.be') not in names:
                    sel.append(be_clone(j))
        for j in sel:
            if not j.name.startswith('c14.'):
                j.name = 'c14.' + j.name
        per[pid] = len(sel)
        out += sel
    # big-endian twins of the buffer re-use sequences of C07 / C08 (built inside their run(), so re-created here)
    from gen import vss as V
    from spec import wire_spec as W
    seq = []
    for sq in [(0x00, 0, 3, 1, 0x04, 1, 0, 1), (0x0B, 0, 6, 4, 0x06, 1, 0, 1), (0x82, 0, 2, 3, 0x82, 0, 7, 2), (0x8A, 0, 4, 2, 0x09, 0, 9, 1)]:
        src, M = V.c07_sequence(*sq)
        seq.append(Job('c14.c07.sequence.%s-then-%s.be' % (W.VSS_TYPES[sq[0]][0], W.VSS_TYPES[sq[4]][0]), src, c07.SRC, be=True,
                       unwind=max(70, M + 8), unwindset=WALKER, timeout=900, object_bits=12, backend='kissat',
                       meta={'sequence': 'two messages encoded into one buffer', 'host': 'big-endian model'}))
    for code, modes, plens, cnt in [(0x04, (0, 0), (3, 7), 1), (0x82, (0, 1, 0), (1, 0, 6), 2), (0x0A, (1, 0), (0, 4), 1)]:
        src, M = V.c08_sequence(code, modes, plens, cnt)
        seq.append(Job('c14.c08.sequence.%s.be' % W.VSS_TYPES[code][0], src, c07.SRC, be=True, unwind=max(70, M + 8),
                       unwindset=WALKER, timeout=900, object_bits=12, backend='kissat',
                       loop_policy=c07.codec_loop_policy(W.VSS_TYPES[code][0], cnt + 2),
                       meta={'sequence': 'messages decoded at the same buffer address', 'host': 'big-endian model'}))
    per['C07/C08 sequences'] = len(seq)
    out += seq
    return out, per


def sanity_twins(chk):
    """the configuration really switches CBMC's word<->byte conversion: mixed settings must FAIL"""
    from gen import binding as B
    b = B.bind('can')
    src, n = G.c01_reads(b)
    twins = [Job('c14.sanity.be-model+le-macros', src, b.sources, be_mix='model-only', unwind=70, unwindset=WALKER),
             Job('c14.sanity.le-model+be-macros', src, b.sources, be_mix='macros-only', unwind=70, unwindset=WALKER)]
    res = core.run_jobs(twins, chk.scratch)
    ok = 0
    for r in res:
        if r.status == 'fail':
            ok += 1
        else:
            chk.add_inconclusive('%s: expected to FAIL (mixed byte-order configuration) but came back %s %s'
                                 % (r.job.name, r.status, r.reason))
    return ok, len(twins)


def run(tier, only=None):
    chk = Check('C14', tier)
    jobs, per = collect(tier, only, chk)
    chk.run(jobs)
    ok, n = sanity_twins(chk)
    chk.extra_cov['sanity_twins_failing_as_required'] = '%d/%d' % (ok, n)
    chk.extra_cov['big_endian_queries_per_property'] = per
    chk.assumptions = STD_ASSUME + [
        'CBMC\'s big-endian memory model plus the library\'s big-endian preprocessor branch stand in for a real '
        'big-endian target and its compiler; no big-endian hardware or cross compiler exists in the sandbox',
        'the oracle is defined on bytes, so "LE build and BE build produce the same wire bytes / extract the same '
        'values" follows by transitivity through the oracle (the LE runs are the checks C01-C10, C12, C13, C17)',
        'a big-endian counterexample cannot run natively: it is re-executed with concrete inputs under CBMC\'s '
        'big-endian model (weaker confirmation than a native replay; stated in DESIGN.md)',
        'quick tier: every BE query the per-property checks already contain plus BE twins of a deterministic '
        'sample of the LE-only queries; thorough: a BE twin of every query']
    return chk.finish(
        rule='each query is the big-endian build of a harness of C01-C10/C12/C13/C17 with the same oracle assertions; '
             'plus two mixed-configuration sanity twins that must fail',
        explanation='same symbolic checks under goto-cc --big-endian with __BYTE_ORDER__ forced to big endian',
        trusted=TRUSTED, checker_cmd=CHECKER + ' ; big-endian: goto-cc --big-endian -U__BYTE_ORDER__ -D__BYTE_ORDER__=__ORDER_BIG_ENDIAN__')
