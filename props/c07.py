"""C07 - VSS messages are encoded exactly as the ACF-VSS description prescribes."""
from .common import *
from gen import vss as V
from spec import wire_spec as W

SRC = ['src/avtp/acf/custom/Vss.c', 'src/avtp/Utils.c']
CASE = {'uint8': 'VSS_UINT8', 'int8': 'VSS_INT8', 'uint16': 'VSS_UINT16', 'int16': 'VSS_INT16',
        'uint32': 'VSS_UINT32', 'int32': 'VSS_INT32', 'uint64': 'VSS_UINT64', 'int64': 'VSS_INT64',
        'bool': 'VSS_BOOL', 'float': 'VSS_FLOAT', 'double': 'VSS_DOUBLE', 'string': 'VSS_STRING'}
for _k in ('uint8', 'int8', 'uint16', 'int16', 'uint32', 'int32', 'uint64', 'int64', 'bool', 'float',
           'double', 'string'):
    CASE[_k + '_array'] = CASE[_k] + '_ARRAY'


def codec_loop_policy(name, bound):
    """the datatype is symbolic for the symbolic executor (it is read back from wire bytes), so all 24
    switch cases are explored; only the loop under the case label of the datatype under test gets the
    real bound, every other codec loop gets bound 1.  Sound: unwinding assertions stay on, so a loop
    that could run under this datatype but was cut would be reported."""
    from engine.core import case_label_of

    def pol(loops):
        out = {}
        for l in loops:
            if l['function'] in ('Avtp_Vss_SetVssData', 'Avtp_Vss_GetVssData'):
                lab = case_label_of(l['file'], l['line'])
                out[l['id']] = bound if lab == CASE.get(name) else 1
        return out
    return pol



def jobs_for(tier, only, kind):
    gen_f = V.c07_functional if kind == 'c07' else V.c08_functional
    gen_e = V.c07_extent if kind == 'c07' else V.c08_extent
    P, D = (6, 16) if tier == 'quick' else (16, 64)
    EP, EE = (3, 2) if tier == 'quick' else (6, 4)
    jobs = []
    for code in sorted(W.VSS_TYPES):
        name, size, k = W.VSS_TYPES[code]
        if only and name not in only.split(',') and 'all' not in only:
            continue
        for mode in (W.VSS_ADDR_INTEROP, W.VSS_ADDR_STATIC):
            mn = 'interop' if mode == 0 else 'static'
            bes = (False, True) if (tier == 'thorough' or k == 'scalar' or size > 1) else (False,)
            for be in bes:
                jobs.append(Job('%s.%s.%s.F.%s' % (kind, name, mn, 'be' if be else 'le'), gen_f(code, mode, P, D), SRC,
                                be=be, unwind=max(70, P + D + 48), unwindset=WALKER, timeout=1700, mem_gb=(12 if tier == 'quick' else 14),
                                backend='cadical', object_bits=12,
                                loop_policy=codec_loop_policy(name, D // size + 2),
                                meta={'datatype': name, 'address_mode': mn, 'path_length': 'symbolic 0..%d' % P,
                                      'value_bytes': 'symbolic 0..%d (whole elements)' % D if k != 'scalar' else size,
                                      'layout': 'maximum-size object + 8 guard bytes, all prior contents'}))
            for (pl, cnt) in V._pairs(code, mode, EP, EE):
                src, M = gen_e(code, mode, pl, cnt)
                jobs.append(Job('%s.%s.%s.E.p%d.n%d' % (kind, name, mn, pl, cnt), src, SRC, unwind=max(70, M + 8),
                                unwindset=WALKER, timeout=600, object_bits=12,
                                loop_policy=codec_loop_policy(name, cnt + 2),
                                meta={'datatype': name, 'address_mode': mn, 'path_length': pl, 'elements': cnt,
                                      'message_object_bytes': M, 'layout': 'exact extent'}))
    # value sizes around the type boundaries of byte counters (255/256, 511/512, 1023/1024) and near the ACF
    # maximum, for one datatype of every element width and both variable-length layouts (exact-extent objects)
    big = [(0x0B, [255, 256, 300, 511, 512, 513, 600]),                # string (bytes)
           (0x82, [127, 128, 255, 256, 300]),                            # uint16[]  (up to 600 bytes)
           (0x84, [63, 64, 127, 128, 150]),                              # uint32[]
           (0x8A, [31, 32, 63, 64, 75]),                                 # double[]
           (0x80, [255, 256, 511, 513])]                                 # uint8[]
    for code, counts in big:
        name, size, k = W.VSS_TYPES[code]
        if only and name not in only.split(',') and 'all' not in only and 'big' not in only:
            continue
        if tier == 'thorough':
            sel = [(c, m) for c in counts for m in (W.VSS_ADDR_STATIC, W.VSS_ADDR_INTEROP)]
        elif kind == 'c07':
            sel = [(c, W.VSS_ADDR_STATIC) for c in sorted(set(counts[1::2] + counts[-1:]))] + [(counts[-1], W.VSS_ADDR_INTEROP)]
        else:
            # decoding harnesses encode + decode and need 5-12 GB each: quick keeps the two that cross 511/512 bytes
            sel = {0x0B: [(513, W.VSS_ADDR_STATIC)], 0x82: [(256, W.VSS_ADDR_STATIC)], 0x8A: [(64, W.VSS_ADDR_STATIC)],
                   0x80: [(513, W.VSS_ADDR_INTEROP)]}.get(code, [])
        for cnt, mode in sel:
            pl = 0 if mode == W.VSS_ADDR_STATIC else 5
            src, M = (gen_e if kind == 'c07' else V.c08_big)(code, mode, pl, cnt)
            jobs.append(Job('%s.%s.%s.E.p%d.n%d' % (kind, name, 'interop' if mode == 0 else 'static', pl, cnt), src, SRC,
                            unwind=max(70, M + 8), unwindset=WALKER, timeout=1500, object_bits=12, backend='kissat',
                            mem_gb=(12 if kind == 'c07' else 16), loop_policy=codec_loop_policy(name, cnt + 2),
                            meta={'datatype': name, 'path_length': pl, 'elements': cnt, 'value_bytes': cnt * size,
                                  'message_object_bytes': M, 'layout': 'exact extent'}))
    # interop path lengths around the byte boundaries of the 16-bit length prefix (carry into the high byte)
    if (not only or 'pathlen' in only or 'all' in only) and (kind == 'c07' or tier == 'thorough'):
        for code in ((0x0B,) if tier == 'quick' else (0x04, 0x0B)):
            name, size, k = W.VSS_TYPES[code]
            pls = [254, 255, 256, 510, 511, 512] if tier == 'quick' else [253, 254, 255, 256, 257, 509, 510, 511, 512, 513, 1022, 1023, 1024, 1534, 1535]
            if kind == 'c08':
                pls = [x for x in pls if x <= 257]      # decode + encode of longer paths exceeds 24 GB (measured)
            for pl in pls:
                src, M = gen_e(code, W.VSS_ADDR_INTEROP, pl, 1 if k == 'scalar' else 3)
                jobs.append(Job('%s.%s.interop.E.p%d.pathlen' % (kind, name, pl), src, SRC, unwind=max(70, M + 8),
                                unwindset=WALKER, timeout=900, object_bits=12, backend='kissat', mem_gb=(12 if kind == 'c07' else 24),
                                loop_policy=codec_loop_policy(name, 5),
                                meta={'datatype': name, 'path_length': pl, 'message_object_bytes': M, 'layout': 'exact extent'}))
    return jobs, (P, D, EP, EE)


def run(tier, only=None):
    chk = Check('C07', tier)
    jobs, (P, D, EP, EE) = jobs_for(tier, only, 'c07')
    if not only or 'reserved' in only or 'all' in only:
        for be in (False, True):
            jobs.append(Job('c07.reserved-datatype.%s' % ('be' if be else 'le'), V.c07_reserved_datatype(4, 8), SRC, be=be,
                            unwind=70, loop_policy=codec_loop_policy('none', 1), unwindset=WALKER, timeout=1200, backend='cadical', object_bits=12,
                            meta={'address_mode': 'symbolic 0..1', 'datatype': 'symbolic over every reserved code 0x0C..0x7F, 0x8C..0xFF'}))
        for code in sorted(W.VSS_TYPES):
            jobs.append(Job('c07.reserved-mode.%s' % W.VSS_TYPES[code][0], V.c07_reserved_mode(4, 8, code), SRC,
                            unwind=70, unwindset=WALKER, timeout=1200, backend='cadical', object_bits=12,
                            loop_policy=codec_loop_policy(W.VSS_TYPES[code][0], 8 // W.VSS_TYPES[code][1] + 2),
                            meta={'address_mode': 'symbolic 2..3 (reserved)', 'datatype': W.VSS_TYPES[code][0]}))
    if not only or 'sequence' in only or 'all' in only:
        seqs = [(0x00, 0, 3, 1, 0x04, 1, 0, 1), (0x04, 1, 0, 1, 0x02, 0, 5, 1), (0x0B, 0, 6, 4, 0x06, 1, 0, 1),
                (0x82, 0, 2, 3, 0x82, 0, 7, 2), (0x06, 1, 0, 1, 0x0B, 0, 1, 2), (0x8A, 0, 4, 2, 0x09, 0, 9, 1)]
        if tier == 'thorough':
            seqs += [(a, ma, pa, 2, b, mb, pb, 1) for a in (0x02, 0x0B, 0x84) for b in (0x00, 0x0A, 0x88)
                     for (ma, pa) in ((0, 3), (1, 0)) for (mb, pb) in ((0, 6), (1, 0))]
        for sq in seqs:
            src, M = V.c07_sequence(*sq)
            n1, n2 = W.VSS_TYPES[sq[0]][0], W.VSS_TYPES[sq[4]][0]
            jobs.append(Job('c07.sequence.%s.%s.p%d-then-%s.%s.p%d' % (n1, 'interop' if sq[1] == 0 else 'static', sq[2],
                                                                   n2, 'interop' if sq[5] == 0 else 'static', sq[6]),
                            src, SRC, unwind=max(70, M + 8), unwindset=WALKER, timeout=900, object_bits=12, backend='kissat',
                            loop_policy=None, meta={'sequence': 'two messages encoded one after the other into the same buffer',
                                                    'first': n1, 'second': n2}))
    chk.run(jobs)
    chk.assumptions = STD_ASSUME + [
        'bounds: (F) path length 0..%d, value 0..%d bytes in whole elements; (E) every (path length 0..%d, element '
        'count 0..%d) pair per datatype and address mode; lengths up to 65535 are outside the unrolling reach and '
        'outside the claim' % (P, D, EP, EE),
        'floats/doubles are handled as raw 32/64-bit patterns (NaNs and signed zeros included)',
        'header quadlet 0 is symbolic except addr_mode and vss_datatype; the message_timestamp is symbolic']
    return chk.finish(
        rule='one (F) query per datatype x address mode (x byte order) with symbolic path/value lengths on a '
             'maximum-size object, whole object compared with the reference encoder; one (E) query per concrete '
             '(path length, element count) with message, path source and value source of exact extent; reserved '
             'modes/datatypes: object must equal its snapshot',
        explanation='symbolic execution of SetVssPath, SetVssData, CalcVssPathLength against a reference encoder '
                    'written from acf-vss.md',
        trusted=TRUSTED, checker_cmd=CHECKER)
