"""C15 - results do not depend on where the PDU lies in memory; no access assumes more than byte
alignment.  Half 1 (CBMC): the C01/C02/C06/C07/C08/C09 harnesses with the PDU at a symbolic byte
offset 0..7.  Half 2 (IR + SMT): every typed access of the library's LLVM IR at -O0..-O3."""
import glob
import json
import os
import re
import tempfile
import shutil

from .common import *
from engine import core
from engine.report import KF_FILE
from gen import fields as G, binding as B, can as C, vss as V, vsspad as VP
from spec import wire_spec as W
from ir import align as A
from . import c07

LEVELS = ['O0', 'O1', 'O2', 'O3']


def placed(src, k):
    """rewrite a generated harness so that the PDU object lies at byte offset k inside a larger object"""
    src = re.sub(r'vp_pdu_from\(([^;]*?), (\d+)\);', r'vp_place(\1, \2, %du);' % k, src)
    src = src.replace(' free(obj);', ' free(obj - %d);' % k)
    return src


def placement_jobs(tier, only):
    jobs = []
    offs = range(1, 8)       # offset 0 is what C01/C02/C06-C09 already decide
    for fmt in B.all_formats():
        if only and fmt not in only.split(','):
            continue
        b = B.bind(fmt)
        for kind, gen in (('reads', G.c01_reads), ('writes', G.c02_writes)):
            src, n = gen(b)
            for k in offs:
                jobs.append(Job('c15.place.%s.%s.off%d' % (fmt, kind, k), placed(src, k), b.sources, unwind=70,
                                unwindset=WALKER, object_bits=11,
                                meta={'format': fmt, 'placement': 'byte offset %d inside a larger object' % k,
                                      'what': kind, 'cases': n}))
    if only:
        return jobs
    for k in offs:
        for fmt in ('can', 'can_brief'):
            jobs.append(Job('c15.place.%s.builder.off%d' % (fmt, k), placed(C.c06_functional(fmt, 8), k),
                            ['src/avtp/acf/Can.c', 'src/avtp/acf/CanBrief.c', 'src/avtp/Utils.c'], unwind=70,
                            unwindset=WALKER, backend='cadical', object_bits=12,
                            meta={'format': fmt, 'placement': 'offset %d' % k, 'payload_length': 'symbolic 0..8'}))
        jobs.append(Job('c15.place.vss.pad.off%d' % k, placed(VP.c09_functional(24), k), c07.SRC, unwind=70,
                        unwindset=WALKER, backend='cadical', object_bits=12,
                        meta={'placement': 'offset %d' % k, 'message_length': '12..24'}))
    codes = [0x02, 0x06, 0x0A, 0x0B, 0x82, 0x86] if tier == 'quick' else sorted(W.VSS_TYPES)
    for code in codes:
        name, size, kd = W.VSS_TYPES[code]
        for mode in (0, 1):
            for kind, gen in (('enc', V.c07_functional), ('dec', V.c08_functional)):
                for k in ((1, 2, 4) if tier == 'quick' else offs):
                    jobs.append(Job('c15.place.vss.%s.%s.%s.off%d' % (kind, name, 'interop' if mode == 0 else 'static', k),
                                    placed(gen(code, mode, 3, 8), k), c07.SRC, unwind=70, unwindset=WALKER, timeout=1200,
                                    backend='cadical', object_bits=12,
                                    loop_policy=c07.codec_loop_policy(name, 8 // size + 2),
                                    meta={'datatype': name, 'placement': 'offset %d' % k, 'path_length': '0..3',
                                          'value_bytes': '0..8'}))
    return jobs


# ------------------------------------------------------------------------------------------
def load_max():
    """id -> max count from known-findings.txt lines '... id=<id> ... max=<n> ...'"""
    out = {}
    if os.path.exists(KF_FILE):
        for line in open(KF_FILE):
            m = re.match(r'finding:\s+property=C15\s+id=(\S+).*?\bmax=(\d+)', line)
            if m:
                out[m.group(1)] = int(m.group(2))
    return out


def drivers_for(tu):
    """native replay drivers (harness text, sources) that exercise the functions of a TU with zero input"""
    out = []
    base = os.path.basename(tu)
    if base in ('Vss.c',):
        for code in sorted(W.VSS_TYPES):
            for mode in (0, 1):
                out.append((V.c07_extent(code, mode, 1, 2)[0], c07.SRC))
                out.append((V.c08_extent(code, mode, 1, 2)[0], c07.SRC))
        out.append((VP.c09_extent(13), c07.SRC))
        from gen import strarr as SA
        out.append((SA.c10_extent([1, 2], 3), c07.SRC))
        b = B.bind('vss')
        out.append((G.c02_writes(b)[0], b.sources))
        return out
    fmts = [f for f in B.all_formats() if any(os.path.basename(s) == base for s in B.TABLE[f][1])]
    if base == 'Utils.c':
        fmts = ['can', 'gpc', 'tscf']
    for f in fmts:
        b = B.bind(f)
        out.append((G.c02_writes(b)[0], b.sources))
        out.append((G.c04_init(b)[0], b.sources))
    if base in ('Can.c', 'Utils.c'):
        out.append((C.c06_extent('can', 5), ['src/avtp/acf/Can.c', 'src/avtp/Utils.c']))
    if base == 'CanBrief.c':
        out.append((C.c06_extent('can_brief', 5), ['src/avtp/acf/CanBrief.c', 'src/avtp/acf/Can.c', 'src/avtp/Utils.c']))
    return out


CTYPE_BITS = {'uint8_t': 'i8', 'int8_t': 'i8', 'char': 'i8', 'uint16_t': 'i16', 'int16_t': 'i16', 'short': 'i16',
              'uint32_t': 'i32', 'int32_t': 'i32', 'float': 'i32', 'int': 'i32', 'unsigned int': 'i32',
              'uint64_t': 'i64', 'int64_t': 'i64', 'double': 'i64', 'long': 'i64', 'unsigned long': 'i64'}


def native_misaligned(finding, tag, allowed=None):
    """build + run the drivers of the TU with the PDU at odd addresses under -fsanitize=alignment
    (recovering, so that every misaligned site is reported).  Distinct UBSan report sites inside the
    function named by the finding, of the finding's kind and width, are counted; confirmed when there
    are more of them than the known findings allow (any, for an unknown class)."""
    d = os.path.join(core.REPLAY_DIR, '%s-c15-%s-%s-%s-%s' % (tag, os.path.basename(finding['tu']).replace('.', '_'),
                                                       finding['function'], finding['kind'], finding['type']))
    os.makedirs(d, exist_ok=True)
    json.dump({k: v for k, v in finding.items()}, open(os.path.join(d, 'finding.json'), 'w'), indent=1)
    res = finding.get('model_root_address') or 1
    offs = sorted({res % 8 or 1, 1, 2, 4})
    log = []
    sites = set()
    n = 0
    want_kind = 'store' if finding['kind'] in ('store', 'memcpy-dst', 'memset') else 'load'
    for (src, sources) in drivers_for(finding['tu']):
        n += 1
        hp = os.path.join(d, 'driver%d.c' % n)
        open(hp, 'w').write(src)
        open(os.path.join(d, 'vp_replay_in.h'), 'w').write('#define VP_REPLAY_INIT {0}\n')
        for off in offs:
            exe = os.path.join(d, 'drv.bin')
            cmd = ['gcc', '-std=gnu99', '-O0', '-g', '-w', '-fsanitize=alignment', '-fsanitize-recover=alignment',
                   '-DVP_REPLAY', '-DVP_MISALIGN=%d' % off, '-I' + core.HARNESS_DIR, '-I' + os.path.join(core.REPO, 'include'),
                   '-I' + d, hp] + [os.path.join(core.REPO, s) for s in sources] + ['-o', exe, '-lm']
            rc, out, err, wall, rss = core.run_cmd(cmd, 120, None, cwd=d)
            if rc != 0:
                log.append('driver %d: build failed: %s' % (n, (out + err).decode(errors='replace')[-300:]))
                break
            env = dict(os.environ, UBSAN_OPTIONS='print_stacktrace=1:halt_on_error=0')
            rc, out, err, wall, rss = core.run_cmd([exe], 60, None, cwd=d, env=env)
            text = (out + err).decode(errors='replace')
            try:
                os.unlink(exe)
            except OSError:
                pass
            lines = text.splitlines()
            for i, l in enumerate(lines):
                m = re.match(r"(\S+?):(\d+):(\d+): runtime error: (load of|store to|member access within) misaligned address \S+ for type '([^']+)'", l)
                if not m:
                    continue
                kind = 'store' if m.group(4) == 'store to' else 'load'
                bits = CTYPE_BITS.get(m.group(5).replace('const ', '').strip(), m.group(5))
                fn = ''
                for l2 in lines[i + 1:i + 8]:
                    m2 = re.search(r'#0 \S+ in (\w+)', l2)
                    if m2:
                        fn = m2.group(1)
                        break
                if fn == finding['function'] and kind == want_kind and bits == finding['type']:
                    sites.add('%s:%s:%s' % (os.path.basename(m.group(1)), m.group(2), m.group(3)))
    limit = allowed or 0
    with open(os.path.join(d, 'replay.log'), 'w') as f:
        f.write('UBSan (-fsanitize=alignment) distinct misaligned %s sites of %s in %s with the PDU at odd addresses: %d (known findings allow %d)\n%s\n%s\n'
                % (want_kind, finding['type'], finding['function'], len(sites), limit, '\n'.join(sorted(sites)), '\n'.join(log)))
    text = open(os.path.join(d, 'replay.log')).read()
    return len(sites) > limit, d, text[-1500:]


def run(tier, only=None):
    chk = Check('C15', tier)
    chk.run(placement_jobs(tier, only))
    # ---- half 2: IR + SMT
    srcs = sorted(glob.glob(os.path.join(core.REPO, 'src/avtp/**/*.c'), recursive=True))
    maxes = load_max()
    n_obl = n_dis = n_q = 0
    per_level = {}
    classes = {}       # (tu, func, kind, type) at O0 -> list of findings
    other = {}         # same at other levels
    samples = []
    import time
    t0 = time.time()
    for src in srcs:
        for lvl in LEVELS:
            try:
                obl, finds = A.analyse(src, lvl)
            except Exception as e:
                chk.add_inconclusive('IR analysis of %s at -%s failed: %s' % (os.path.relpath(src, core.REPO), lvl, e))
                continue
            n_obl += len(obl)
            n_dis += len(obl) - len(finds)
            n_q += 2 * len(obl)
            per_level[lvl] = per_level.get(lvl, 0) + len(obl)
            for f in finds:
                key = (os.path.basename(f['tu']), f['function'], f['kind'], f['type'])
                (classes if lvl == 'O0' else other).setdefault(key, []).append(f)
            if obl and len(samples) < 4:
                o = obl[len(obl) // 2]
                samples.append({'query': 'alignment of %s %s align %d in %s (%s, -%s)' % (o['kind'], o['type'], o['align'], o['function'], o['tu'], lvl),
                                'root': o['root'], 'promised': o['promised'], 'index_scales': o['terms'], 'const': o['const'],
                                'verdict': o['verdict']})
    solver_s = time.time() - t0
    new = []
    for key, fl in sorted(classes.items()):
        kid = 'C15 misaligned %s %s %s %s' % key
        f = chk.known_external(kid)
        if f and len(fl) <= maxes.get(f.fid, 0):
            continue
        if f:
            chk.known_hits[f.fid].pop()
            if not chk.known_hits[f.fid]:
                del chk.known_hits[f.fid]
        new.append((key, fl, 'O0', maxes.get(f.fid) if f else None))
    for key, fl in sorted(other.items()):
        if key in classes:
            continue          # same class as at -O0 (optimiser merged / duplicated accesses)
        kid = 'C15 misaligned %s %s %s %s' % key
        # accept optimiser-widened forms of a known class of the same function and kind
        f = chk.known_external(kid)
        if f:
            continue
        # the optimiser inlines callees of the same TU and widens/merges accesses: a class that only
        # appears above -O0 is accepted when the same TU has a KNOWN class of the same kind at -O0
        same_tu = [k for k in classes if k[0] == key[0] and k[2].split('-')[0] == key[2].split('-')[0]]
        if same_tu and all(chk.known_external('C15 misaligned %s %s %s %s' % k) for k in same_tu):
            continue
        new.append((key, fl, fl[0]['level'], None))
    for key, fl, lvl, mx in new[:6]:
        f0 = fl[0]
        what = ('C15 %s: %d unjustified %s of %s (align %d) in %s at -%s%s; root %s promises alignment %d; '
                'solver model: base address residue %s'
                % (key[0], len(fl), key[2], key[3], f0['align'], key[1], lvl,
                   ' (known finding allows %d)' % mx if mx is not None else '', f0['root'], f0['promised'],
                   hex(f0['model_root_address']) if f0['model_root_address'] is not None else '?'))
        ok, path, text = native_misaligned(f0, 'C15', mx)
        if ok:
            chk.add_violation_external(what, path, text)
        else:
            chk.add_inconclusive(what + ' -- solver says misaligned, but no native driver reproduced a UBSan '
                                 'alignment report inside that function (%s)' % path)
    chk.extra_cov.update({'extra_obligations': n_obl, 'extra_discharged': n_dis, 'extra_queries': n_q,
                          'extra_distinct': n_obl,
                          'ir_alignment_obligations_per_level': per_level,
                          'ir_translation_units': [os.path.relpath(s, core.REPO) for s in srcs],
                          'ir_unjustified_classes_at_O0': {' '.join(k): len(v) for k, v in sorted(classes.items())},
                          'ir_solver_wall_s': round(solver_s, 1)})
    chk.samples += samples
    chk.assumptions = STD_ASSUME + [
        'half 1 (CBMC): every placement offset 1..7 inside a larger object, one query each (offset 0 is C01/C02/C06-C09); CBMC models pointer arithmetic and '
        'pointer<->integer conversion but not alignment traps',
        'half 2 (IR+SMT): promised alignment of a pointer argument / loaded pointer / call result = ABI alignment of '
        'its pointee type on x86-64 (1 for every Avtp_*_t byte-array header and uint8_t*); allocas and globals carry '
        'their own alignment; address arithmetic through integers is treated as byte aligned',
        'optimisation levels: the IR of -O0 (after mem2reg), -O1, -O2, -O3 is checked separately; equal results at '
        'every level then follow from the compiler\'s obligation to preserve defined behaviour (trusted) given the '
        'absence of UB shown by the CBMC runs (shifts, overflow, bounds) and by this alignment check',
        'a class that appears only above -O0 (inlining, merged or widened accesses) is accepted when the same TU has only KNOWN classes of the same kind at -O0; -O0 is the source-faithful level at which counts are enforced']
    return chk.finish(
        rule='half 1: one CBMC query per format x {reads, writes} x byte offset 1..7 and per builder/codec x offset; half 2: one SMT query (z3, cross-checked with cvc5) per (typed access with align>1, root) of '
             'every library TU at 4 optimisation levels',
        explanation='placement independence of values by symbolic execution; alignment assumptions by an IR-level '
                    'bit-vector encoding of every access address (root + sum(index*scale) + const) mod k',
        trusted=TRUSTED + ['clang-14 IR generation; own LLVM-IR text parser (ir/align.py); z3 4.8.12 and cvc5 1.0 agreeing on every query'],
        checker_cmd=CHECKER + ' ; clang-14 -S -emit-llvm -O{0,1,2,3} <tu> | ir/align.py -> z3 -in / cvc5 --incremental')
