"""C16 - library calls are re-entrant: no shared mutable state.

CBMC cannot explore interleavings of this code (pointer-based concurrency is refused as unsound),
so the schedule quantifier is reduced to per-function facts:
 (a) inventory: every static-lifetime object of the library goto binaries is const-qualified;
     the only undefined (libc) functions reachable are memcpy/memset/memmove;
 (b) frame check: every accessor / initialiser / builder / codec harness is decided again with
     --nondet-static (arbitrary pre-state of every mutable static): the byte-level oracle assertions
     must still hold (results depend on arguments only), all pointer checks must hold (effects go
     through the arguments only);
 (d) readers do not write: all readers of a format are called from one wrapper whose contract has an EMPTY
     assigns clause, enforced by CBMC's dynamic frame condition checking (goto-instrument --dfcc): a getter
     that writes anything outside its own stack frame - even the same bytes back into the PDU - fails;
     this is what makes read-only calls on a SHARED PDU race free;
 (c) composition (argument, not exploration): functions whose footprint is their argument objects
     plus immutable tables are data-race free on distinct arguments; read-only functions (C01: reads
     do not modify the buffer) are race free on a shared PDU.
A mutable static found by (a) is reported with a native replay: the harnesses of that translation
unit run on two threads under ThreadSanitizer (and the failing frame query, if any, is named)."""
import glob
import json
import os
import re
import subprocess

from .common import *
from engine import core
from gen import binding as B, fields as G, can as C, vss as V, vsspad as VP, strarr as SA
from spec import wire_spec as W
from . import c07, c15

ALLOWED_LIBC = {'memcpy', 'memset', 'memmove', '__builtin_memcpy', '__builtin_memset'}


def is_const(t):
    if not isinstance(t, dict):
        return False
    if t.get('id') == 'array':
        sub = t.get('sub') or []
        return bool(sub) and is_const(sub[0])
    return '#constant' in (t.get('namedSub') or {})


def inventory(scratch):
    srcs = sorted(glob.glob(os.path.join(core.REPO, 'src/avtp/**/*.c'), recursive=True))
    statics, undefined, errors = [], set(), []
    for src in srcs:
        gb = os.path.join(scratch, 'inv_' + os.path.basename(src) + '.gb')
        rc, out, err, _, _ = core.run_cmd(['goto-cc', '-std=gnu99', '-I' + os.path.join(core.REPO, 'include'), '-c', src, '-o', gb], 120, 8)
        if rc:
            errors.append('goto-cc failed on %s: %s' % (src, (out + err).decode(errors='replace')[-300:]))
            continue
        rc, out, err, _, _ = core.run_cmd(['goto-instrument', '--show-symbol-table', '--json-ui', gb], 120, 8)
        try:
            data = json.loads(out.decode(errors='replace'))
            st = [e for e in data if isinstance(e, dict) and 'symbolTable' in e][0]['symbolTable']
        except Exception as e:
            errors.append('symbol table of %s unreadable: %s' % (src, e))
            continue
        defined = set()
        for k, v in st.items():
            if k.startswith('__CPROVER') or v.get('isType'):
                continue
            if v.get('type', {}).get('id') == 'code':
                if v.get('value', {}).get('id') not in (None, 'nil', ''):
                    defined.add(k)
                continue
            if v.get('isStaticLifetime') and not v.get('isExtern') and v.get('isLvalue'):
                statics.append({'tu': os.path.relpath(src, core.REPO), 'symbol': k, 'type': v.get('prettyType', ''),
                                'const': is_const(v.get('type', {})), 'file_local': v.get('isFileLocal', False)})
        rc, out, err, _, _ = core.run_cmd(['goto-instrument', '--list-undefined-functions', gb], 120, 8)
        for line in out.decode(errors='replace').splitlines():
            line = line.strip()
            if line and not line.startswith('Reading') and not line.startswith('**') and re.match(r'^[\w$]+$', line):
                undefined.add((os.path.relpath(src, core.REPO), line))
    return srcs, statics, undefined, errors


def reader_jobs(tier, only):
    """(d) readers do not write: empty assigns clause enforced by dynamic frame condition checking"""
    jobs = []
    for fmt in B.all_formats():
        if only and fmt not in only.split(','):
            continue
        b = B.bind(fmt)
        src, n = G.c16_readers(b)
        jobs.append(Job('c16.readers-do-not-write.%s' % fmt, src, b.sources + (['src/avtp/CommonHeader.c'] if fmt != 'common' and b.legacy else []),
                        unwind=70, unwindset=WALKER, dfcc='vp_readers',
                        meta={'format': fmt, 'readers': n, 'contract': 'assigns() (empty) enforced with goto-instrument --dfcc'}))
    return jobs


def frame_jobs(tier, only):
    jobs = []
    for fmt in B.all_formats():
        if only and fmt not in only.split(','):
            continue
        b = B.bind(fmt)
        for kind, gen in (('reads', G.c01_reads), ('writes', G.c02_writes), ('init', G.c04_init)):
            src, n = gen(b)
            if n == 0:
                continue
            jobs.append(Job('c16.frame.%s.%s' % (fmt, kind), src, b.sources, unwind=70, unwindset=WALKER,
                            nondet_static=True, meta={'format': fmt, 'what': kind, 'static_prestate': 'arbitrary (--nondet-static)'}))
    if only:
        return jobs
    for fmt in ('can', 'can_brief'):
        jobs.append(Job('c16.frame.%s.builder' % fmt, C.c06_functional(fmt, 16),
                        ['src/avtp/acf/Can.c', 'src/avtp/acf/CanBrief.c', 'src/avtp/Utils.c'], unwind=70, unwindset=WALKER,
                        backend='cadical', object_bits=12, nondet_static=True, meta={'format': fmt, 'static_prestate': 'arbitrary'}))
    jobs.append(Job('c16.frame.vss.pad', VP.c09_functional(32), c07.SRC, unwind=70, unwindset=WALKER, backend='cadical',
                    object_bits=12, nondet_static=True, meta={'static_prestate': 'arbitrary'}))
    for v in ([], [1], [2, 0], [1, 2, 1]):
        jobs.append(Job('c16.frame.vss.strarr.%s' % ('-'.join(map(str, v)) or 'none'), SA.c10_extent(v, len(v) + 1), c07.SRC,
                        unwind=70, object_bits=12, nondet_static=True, meta={'lengths': v, 'static_prestate': 'arbitrary'}))
    for code in sorted(W.VSS_TYPES):
        name, size, kd = W.VSS_TYPES[code]
        for mode in (0, 1):
            for kind, gen in (('enc', V.c07_extent), ('dec', V.c08_extent)):
                src, M = gen(code, mode, 1, 2)
                jobs.append(Job('c16.frame.vss.%s.%s.%s' % (kind, name, 'interop' if mode == 0 else 'static'), src, c07.SRC,
                                unwind=max(70, M + 8), unwindset=WALKER, object_bits=12, nondet_static=True,
                                loop_policy=c07.codec_loop_policy(name, 4),
                                meta={'datatype': name, 'static_prestate': 'arbitrary'}))
    return jobs


TSAN_MAIN = r'''
#include <pthread.h>
void harness(void);
static void *vp_thread(void *a) { (void)a; for (int i = 0; i < 300; i++) harness(); return 0; }
int main(void) { pthread_t t[2]; for (int i = 0; i < 2; i++) pthread_create(&t[i], 0, vp_thread, 0);
                 for (int i = 0; i < 2; i++) pthread_join(t[i], 0); return 0; }
'''


def tsan_replay(sym, tag):
    """two threads run the harnesses of the symbol's TU on distinct buffers under ThreadSanitizer"""
    base = re.sub(r'[^A-Za-z0-9_]', '_', sym['symbol'])[-40:]
    d = os.path.join(core.REPLAY_DIR, '%s-c16-%s' % (tag, base))
    os.makedirs(d, exist_ok=True)
    json.dump(sym, open(os.path.join(d, 'mutable_static.json'), 'w'), indent=1)
    open(os.path.join(d, 'vp_replay_in.h'), 'w').write('#define VP_REPLAY_INIT {0}\n')
    open(os.path.join(d, 'tsan_main.c'), 'w').write(TSAN_MAIN)
    n = 0
    log = []
    for (src, sources) in c15.drivers_for(os.path.join(core.REPO, sym['tu'])):
        n += 1
        hp = os.path.join(d, 'driver%d.c' % n)
        open(hp, 'w').write(src)
        exe = os.path.join(d, 'drv.bin')
        cmd = ['gcc', '-std=gnu99', '-O1', '-g', '-w', '-fsanitize=thread', '-pthread', '-DVP_REPLAY', '-DVP_NO_MAIN',
               '-I' + core.HARNESS_DIR, '-I' + os.path.join(core.REPO, 'include'), '-I' + d, hp,
               os.path.join(d, 'tsan_main.c')] + [os.path.join(core.REPO, s) for s in sources] + ['-o', exe, '-lm']
        rc, out, err, _, _ = core.run_cmd(cmd, 180, None, cwd=d)
        if rc:
            log.append('driver %d: build failed: %s' % (n, (out + err).decode(errors='replace')[-200:]))
            continue
        rc, out, err, _, _ = core.run_cmd([exe], 120, None, cwd=d, env=dict(os.environ, TSAN_OPTIONS='halt_on_error=1:exitcode=66'))
        text = (out + err).decode(errors='replace')
        try:
            os.unlink(exe)
        except OSError:
            pass
        if 'ThreadSanitizer: data race' in text and os.path.basename(sym['tu']) in text:
            open(os.path.join(d, 'replay.log'), 'w').write(text[-4000:])
            open(os.path.join(d, 'README'), 'w').write(
                'driver%d.c + tsan_main.c built with -fsanitize=thread: two threads, distinct buffers\n' % n)
            return True, d, text[-1200:]
    open(os.path.join(d, 'replay.log'), 'w').write('\n'.join(log) or 'no ThreadSanitizer report')
    return False, d, '\n'.join(log)


def run(tier, only=None):
    chk = Check('C16', tier, level='other')
    srcs, statics, undefined, errors = inventory(chk.scratch)
    for e in errors:
        chk.add_inconclusive(e)
    mut = [s for s in statics if not s['const']]
    bad_libc = sorted({f for _, f in undefined if f not in ALLOWED_LIBC and not f.startswith('__CPROVER') and not f.startswith('Avtp_')
                       and not f.startswith('avtp_') and f != 'IsFieldDescriptorValid'})
    # (b) frame check under an arbitrary static pre-state
    fj = frame_jobs(tier, only)
    chk.run(reader_jobs(tier, only))
    res = core.run_jobs(fj, chk.scratch)
    chk.results += res
    frame_fail = {}
    for r in res:
        if r.status == 'pass':
            continue
        if r.status == 'fail' and mut:
            frame_fail[r.job.name] = [p.desc for p in r.failed[:3]]
        elif r.status == 'fail':
            # no mutable static exists, so --nondet-static changes nothing: treat like any other failure
            chk._triage(r)
        else:
            chk.add_inconclusive('%s: %s' % (r.job.name, r.reason))
    for s in mut:
        rel = [k for k in frame_fail if True]
        what = ('C16 mutable static-lifetime object %s (%s) in %s: library functions must read and write only the '
                'objects passed to them and immutable tables%s'
                % (s['symbol'], s['type'], s['tu'],
                   ('; with an arbitrary pre-state of it the oracle assertions fail in: ' + ', '.join(sorted(frame_fail)[:4])) if frame_fail else ''))
        f = chk.known_external(what)
        if f:
            continue
        ok, path, text = tsan_replay(s, 'C16')
        if ok or frame_fail:
            chk.add_violation_external(what, path, text if ok else 'frame check fails under --nondet-static: %s' % json.dumps(frame_fail)[:800])
        else:
            chk.add_inconclusive(what + ' -- neither a ThreadSanitizer report nor a failing frame query confirms an effect (%s)' % path)
    if bad_libc:
        chk.add_inconclusive('library calls external functions other than memcpy/memset: %s (their re-entrancy is not modelled)' % bad_libc)
    n_obj = len(statics) + len(undefined)
    chk.extra_cov.update({'extra_obligations': len(statics), 'extra_discharged': len(statics) - len(mut),
                          'extra_distinct': len(statics),
                          'static_lifetime_objects': [{'tu': s['tu'], 'symbol': s['symbol'], 'type': s['type'], 'const': s['const']} for s in statics],
                          'mutable_statics': [s['symbol'] for s in mut],
                          'undefined_functions_called': sorted({f for _, f in undefined}),
                          'translation_units': [os.path.relpath(s, core.REPO) for s in srcs],
                          'frame_queries_failing_under_arbitrary_static_state': frame_fail})
    chk.assumptions = STD_ASSUME + [
        'NOT an exploration of schedules: CBMC refuses pointer-based concurrent programs ("pointer handling for '
        'concurrency is unsound"); the schedule quantifier is discharged by the composition argument over '
        'solver-checked per-function footprints',
        'footprint = argument objects (all CBMC pointer checks of C01-C10 on exact-extent objects) + const tables '
        '(inventory of every static-lifetime symbol of every library goto binary)',
        'libc functions reachable from the library are memcpy/memset only (asserted from the goto binaries); they '
        'are re-entrant']
    return chk.finish(
        rule='inventory: one obligation per static-lifetime object of the library (must be const); frame check: every '
             'accessor/initialiser/builder/codec harness decided under --nondet-static with the same oracle assertions',
        explanation='per-function symbolic proof of the frame condition + composition argument; a mutable static is '
                    'replayed on two threads under ThreadSanitizer',
        trusted=TRUSTED + ['goto-instrument symbol table (static lifetime, const qualification)', 'ThreadSanitizer for the replay of a finding'],
        checker_cmd=CHECKER + ' --nondet-static ; goto-instrument --show-symbol-table --json-ui ; --list-undefined-functions')
