"""C12 - legacy and current APIs are interchangeable."""
from .common import *
from gen import legacy as LG


def build(tier, only, chk):
    jobs = []
    for b in bindings(only, chk):
        if not b.legacy:
            continue
        src, n = LG.c12(b)
        extra = ['avtp/CommonHeader.h'] if b.fmt != 'common' else []
        if extra:
            src = src.replace('#include "%s"' % b.header, '#include "avtp/CommonHeader.h"\n#include "%s"' % b.header)
        srcs = b.sources + (['src/avtp/CommonHeader.c'] if b.fmt != 'common' else [])
        for be in (False, True):
            jobs.append(Job('c12.%s.%s' % (b.fmt, 'be' if be else 'le'), src, srcs, be=be, unwind=70,
                            unwindset=WALKER, meta={'format': b.fmt, 'cases': n, 'buffer_bytes': b.spec_len,
                                                    'domain': 'all buffers x all values'}))
    return jobs


def run(tier, only=None):
    chk = Check('C12', tier)
    jobs = build(tier, only, chk)
    chk.run(jobs)
    chk.assumptions = STD_ASSUME + ['avtp_pdu_get/set carry 32-bit values; compared after truncation (all common-header fields are <= 8 bits)']
    return chk.finish(
        rule='one query per legacy format and byte order; per field: legacy get == current get == oracle bits, legacy '
             'set bytes == current set bytes, legacy init == current init; every legacy alias macro pinned to the '
             'oracle field it must designate; struct overlay sizes/offsets',
        explanation='differential symbolic check legacy vs current on two copies of one symbolic buffer',
        trusted=TRUSTED, checker_cmd=CHECKER)
