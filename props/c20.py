"""C20 - public headers can be combined freely without changing meaning.

(1) compiles: every header alone, every ordered pair, and the full set in three orders, as C
    (goto-cc, the front end that produces every encoding of this framework, plus gcc -Wall for
    macro-redefinition diagnostics) and as C++ (clang++-14 -std=c++17 -fsyntax-only; CBMC's C++
    front end is not used).  These are front-end verdicts, not solver queries.
(2) keeps its meaning: for every ordered pair that compiles, every public enumerator, integer macro,
    sizeof of a public type and offsetof(payload) is asserted equal to the value recorded with its
    header alone (CBMC decides the assertions in the combined TU; C++: static_assert); in the
    full-set orders every field enumerator is additionally checked through the real by-identifier
    reader on a symbolic buffer against the oracle bit range.
"""
import concurrent.futures as cf
import itertools
import json
import os
import random
import re
import subprocess

from .common import *
from engine import core
from gen import binding as B
from spec import wire_spec as W

INC = os.path.join(core.REPO, 'include')


def headers():
    out = []
    for root, _, files in os.walk(INC):
        for f in files:
            if f.endswith('.h'):
                out.append(os.path.relpath(os.path.join(root, f), INC))
    return sorted(out)


def sh(cmd, inp=None, timeout=120):
    p = subprocess.run(cmd, input=inp, stdout=subprocess.PIPE, stderr=subprocess.PIPE, timeout=timeout)
    return p.returncode, p.stdout.decode(errors='replace'), p.stderr.decode(errors='replace')


def tu_text(hs, extra=''):
    return ''.join('#include "%s"\n' % h for h in hs) + extra


def public_names(h, wd):
    """enumerators, integer-valued macros, public struct/typedef types of header h (with its includes)"""
    rc, pre, err = sh(['gcc', '-E', '-P', '-I' + INC, '-x', 'c', '-'], tu_text([h]).encode())
    enums = []
    for _, _, names in B.enums(pre):
        enums += names
    rc, dm, _ = sh(['gcc', '-E', '-dM', '-I' + INC, '-x', 'c', '-'], tu_text([h]).encode())
    rc, dm0, _ = sh(['gcc', '-E', '-dM', '-x', 'c', '-'], b'#include <stdint.h>\n')
    base = {l.split()[1] for l in dm0.splitlines() if l.startswith('#define')}
    macros = []
    for l in dm.splitlines():
        m = re.match(r'#define (\w+)(\(?)', l)
        if m and m.group(1) not in base and not m.group(1).startswith('_') and m.group(2) != '(' \
                and len(l.split(None, 2)) == 3:
            macros.append(m.group(1))
    # keep macros that are integer constant expressions
    good = []
    cand = list(macros)
    for _ in range(3):
        if not cand:
            break
        body = ''.join('enum { vp_t_%d = (int)(%s) };\n' % (i, n) for i, n in enumerate(cand))
        rc, out, err = sh(['gcc', '-fsyntax-only', '-w', '-I' + INC, '-x', 'c', '-'], tu_text([h], body).encode())
        if rc == 0:
            good = cand
            break
        badl = {int(x) for x in re.findall(r'<stdin>:(\d+):', err)}
        nh = 1
        cand = [n for i, n in enumerate(cand) if (i + nh + 1) not in badl]
    # every typedef'd struct/union/enum type and every tagged struct of the repository headers
    own = re.sub(r'^.*?(?=typedef|struct|union|enum)', '', pre, count=1, flags=re.S)
    types = sorted({t for t in re.findall(r'\}\s*(?:__attribute__\s*\(\([^)]*\)\)\s*)?(\w+)\s*;', pre)
                    if re.match(r'(Avtp_|Vss|vss_|Vss_|frame_t)', t)})
    structs = sorted(set(re.findall(r'struct\s+(avtp_\w+|vss_\w+)\s*\{', pre)))
    return sorted(set(enums)), sorted(set(good)), types, structs


def baseline(h, wd):
    """values of the public names of header h when included alone (native program, constants only)"""
    en, mac, types, structs = public_names(h, wd)
    names = en + [m for m in mac if m not in en]
    prog = ['#include <stdio.h>', '#include <stddef.h>', tu_text([h]), 'int main(void) {']
    for n in names:
        prog.append('  printf("N %s %%lld\\n", (long long)(%s));' % (n, n))
    for t in types:
        prog.append('  printf("S %s %%zu\\n", sizeof(%s));' % (t, t))
    for t in structs:
        prog.append('  printf("S struct_%s %%zu\\n", sizeof(struct %s));' % (t, t))
    prog.append('  return 0; }')
    exe = os.path.join(wd, 'base_' + re.sub(r'\W', '_', h))
    rc, out, err = sh(['gcc', '-w', '-I' + INC, '-x', 'c', '-', '-o', exe], '\n'.join(prog).encode())
    if rc:
        return None, err[-600:]
    rc, out, err = sh([exe])
    vals = {}
    for l in out.splitlines():
        k, n, v = l.split()
        vals[(k, n)] = int(v)
    return vals, None


def compiles(hs, lang, wd, tag):
    src = tu_text(hs)
    if lang == 'c':
        out = os.path.join(wd, 'cc_%s.gb' % tag)
        rc, o, e = sh(['goto-cc', '-std=gnu99', '-I' + INC, '-c', '-x', 'c', '-', '-o', out], src.encode())
        try:
            os.unlink(out)
        except OSError:
            pass
        if rc:
            return False, (o + e)[-500:]
        # macro redefinition between two repository headers is a warning in C: treat as a conflict
        rc, o, e = sh(['gcc', '-std=gnu99', '-fsyntax-only', '-I' + INC, '-x', 'c', '-'], src.encode())
        red = [l for l in e.splitlines() if 'redefined' in l and '/include/avtp/' in l]
        if rc or red:
            return False, (red[0] if red else e[-400:])
        return True, ''
    rc, o, e = sh(['clang++-14', '-std=c++17', '-fsyntax-only', '-I' + INC, '-x', 'c++', '-'], src.encode())
    red = [l for l in e.splitlines() if 'macro redefined' in l and '/include/avtp/' in l]
    if rc or red:
        errs = [l for l in e.splitlines() if 'error' in l]
        return False, (errs[0] if errs else (red[0] if red else e[-400:]))
    return True, ''


def meaning_asserts(vals, who):
    out = []
    for (k, n), v in sorted(vals.items()):
        if k == 'N':
            out.append('  VP_ASSERT((long long)(%s) == %dLL, "C20 %s keeps its value %d (%s)");' % (n, v, n, v, who))
        elif n.startswith('struct_'):
            out.append('  VP_ASSERT(sizeof(struct %s) == %d, "C20 sizeof(struct %s) stays %d (%s)");' % (n[7:], v, n[7:], v, who))
        else:
            out.append('  VP_ASSERT(sizeof(%s) == %d, "C20 sizeof(%s) stays %d (%s)");' % (n, v, n, v, who))
    return out


def run(tier, only=None):
    chk = Check('C20', tier)
    hs = headers()
    if only:
        hs = [h for h in hs if any(o in h for o in only.split(','))]
    wd = chk.scratch
    # ---- baselines
    base = {}
    for h in hs:
        v, err = baseline(h, wd)
        if v is None:
            chk.add_inconclusive('header %s does not compile alone (natively): %s' % (h, err))
        else:
            base[h] = v
    # ---- (1) compile matrix
    tasks = []
    for h in hs:
        tasks.append(((h,), 'alone'))
    for a, b in itertools.permutations(hs, 2):
        tasks.append(((a, b), 'pair'))
    rnd = random.Random(chk.seed)
    shuffled = list(hs)
    rnd.shuffle(shuffled)
    fullsets = [('alphabetical', tuple(hs)), ('reverse', tuple(reversed(hs))), ('shuffled seed %d' % chk.seed, tuple(shuffled))]
    results = {}

    def work(t):
        hs_, kind = t
        tag = re.sub(r'\W', '_', '__'.join(hs_))[:150] + str(abs(hash(hs_)) % 9973)
        return t, compiles(hs_, 'c', wd, tag), compiles(hs_, 'cxx', wd, tag)

    with cf.ThreadPoolExecutor(max_workers=core.NCPU) as ex:
        for t, rc_c, rc_x in ex.map(work, tasks):
            results[t[0]] = (rc_c, rc_x)
    n_compile = 2 * len(tasks)
    n_compile_ok = 0
    conflicts = []
    for hs_, (rc_c, rc_x) in sorted(results.items()):
        for lang, (ok, msg) in (('C', rc_c), ('C++', rc_x)):
            if ok:
                n_compile_ok += 1
                continue
            key = 'C20 compile %s %s' % (lang, ' + '.join(hs_))
            if chk.known_external(key):
                continue
            conflicts.append((key, hs_, lang, msg))
    # ---- (2) meaning, ordered pairs: one CBMC job per first header, one TU per pair
    jobs = []
    unusable = []
    for a in hs:
        extra = {}
        calls = []
        for b in hs:
            if a == b or not results.get((a, b), ((False, ''),))[0][0]:
                continue
            if a not in base or b not in base:
                continue
            fn = 'chk_%s' % re.sub(r'\W', '_', b)
            body = ['#include "vp.h"', '#include <stddef.h>', tu_text([a, b]), 'void %s(void) {' % fn]
            body += meaning_asserts(base[a], '%s then %s' % (a, b))
            body += meaning_asserts(base[b], '%s then %s' % (a, b))
            body.append('}')
            text = '\n'.join(body) + '\n'
            # the TU uses every public name of both headers: if it does not compile although the bare include
            # pair does, a public name is no longer declared / usable in this combination
            rcu, ou, eu = sh(['gcc', '-std=gnu99', '-fsyntax-only', '-w', '-D__CPROVER__', '-I' + core.HARNESS_DIR, '-I' + INC, '-x', 'c', '-'], text.encode())
            if rcu != 0:
                errs = [l for l in eu.splitlines() if 'error' in l]
                first = re.sub(r'^<stdin>:\d+:\d+:\s*', '', errs[0]) if errs else eu[-200:]
                key = 'C20 unusable %s then %s: %s' % (a, b, first)
                if not chk.known_external(key):
                    unusable.append((key, (a, b), text, eu))
                continue
            extra['pair_%s.c' % re.sub(r'\W', '_', b)] = text
            calls.append(fn)
        if not calls:
            continue
        h = ['#include "vp.h"', 'typedef struct { uint8_t d; } vp_in_t;'] + ['void %s(void);' % c for c in calls]
        h.append('void harness(void) { VP_INPUT(vp_in_t, in);')
        h += ['  %s();' % c for c in calls]
        h.append('  VP_REACH("c20 pairs of %s end"); }' % a)
        jobs.append(Job('c20.meaning.first.%s' % re.sub(r'\W', '_', a), '\n'.join(h) + '\n', [], unwind=4,
                        extra_sources=extra, replayable=True,
                        meta={'first_header': a, 'ordered_pairs': len(calls)}))
    # full-set orders: values + field designation through the real reader on a symbolic buffer
    for oname, order in fullsets:
        rc = compiles(order, 'c', wd, 'full_' + re.sub(r'\W', '_', oname))
        rx = compiles(order, 'cxx', wd, 'fullx_' + re.sub(r'\W', '_', oname))
        n_compile += 2
        for lang, (ok, msg) in (('C', rc), ('C++', rx)):
            if ok:
                n_compile_ok += 1
            else:
                first = ([l for l in msg.splitlines() if 'error' in l or 'redefined' in l] or [''])[0]
                first = re.sub(r'^\S*?([\w.]+\.h):\d+:\d+:\s*', r'\1: ', first)
                key = 'C20 compile %s full set: %s' % (lang, first)
                if not chk.known_external(key):
                    conflicts.append((key, order, lang, msg))
        if not rc[0]:
            continue
        body = ['#include "vp.h"', '#include <stddef.h>', tu_text(order)]
        maxlen = max(s['len'] for s in W.FORMATS.values())
        body.append('typedef struct { uint8_t buf[%d]; } vp_in_t;' % maxlen)
        body.append('void harness(void) { VP_INPUT(vp_in_t, in);')
        seen = set()
        for h in order:
            for ln in meaning_asserts(base.get(h, {}), 'full set, %s order' % oname):
                if ln not in seen:
                    seen.add(ln)
                    body.append(ln)
        srcs = set()
        for fmt in B.all_formats():
            b = B.bind(fmt)
            srcs |= set(b.sources)
            body.append('  { uint8_t *o = vp_obj_from(in.buf, %d);' % b.spec_len)
            for f in b.fields:
                if f['enum']:
                    body.append('    VP_ASSERT(%s((%s *)o, %s) == spec_get(in.buf, %d, %d), "C20 %s still designates %s.%s in the full-set TU (%s order)");'
                                % (b.getfield, b.ctype, f['enum'], f['off'], f['width'], f['enum'], fmt, f['name'], oname))
            body.append('    free(o); }')
        body.append('  VP_REACH("c20 full set end"); }')
        jobs.append(Job('c20.meaning.fullset.%s' % re.sub(r'\W', '_', oname.split(' seed')[0]), '\n'.join(body) + '\n',
                        sorted(srcs), unwind=70, unwindset=WALKER, timeout=900,
                        meta={'order': oname, 'headers': len(order)}))
    res = core.run_jobs(jobs, wd)
    chk.results += res
    for r in res:
        if r.status == 'pass':
            continue
        if r.status != 'fail':
            chk.add_inconclusive('%s: %s' % (r.job.name, r.reason))
            continue
        # group changed names per ordered pair
        groups = {}
        for p in r.failed:
            m = re.search(r'\(([^()]*)\)"?$', p.desc)
            g = m.group(1) if m else r.job.name
            if g.endswith(' order'):
                g = 'full set'
            groups.setdefault(g, []).append(p)
        for who, ps in sorted(groups.items()):
            names = sorted({re.sub(r'^C20 (?:sizeof\()?([\w ]+?)\)? (?:keeps|stays|still).*$', r'\1', p.desc) for p in ps})
            who_key = 'full set' if who.startswith('full set') else who
            key = 'C20 meaning %s: %s' % (who_key, ','.join(names))
            if chk.known_external(key):
                continue
            c = core.confirm(r.job, r, ps[0], 'C20')
            if c['status'] == 'confirmed':
                chk.violations.append((r.job.name, ps[0], c))
                chk.notes.append('%s: %d public names change meaning: %s' % (who, len(names), ', '.join(names[:12])))
            else:
                chk.add_inconclusive('%s: changed meaning of %s not reproduced natively (%s)' % (who, names[:5], c['status']))
    for key, (a, b), text, eu in unusable[:6]:
        d = os.path.join(core.REPLAY_DIR, 'C20-unusable-%s' % re.sub(r'\W', '_', a + '__' + b)[:120])
        os.makedirs(d, exist_ok=True)
        open(os.path.join(d, 'tu.c'), 'w').write(text)
        open(os.path.join(d, 'README'), 'w').write('gcc -std=gnu99 -fsyntax-only -D__CPROVER__ -I/verif/harness -I/repo/include tu.c\n' + eu[-1500:] + '\n')
        chk.add_violation_external(key[:300], d, eu[-1500:])
    # compile conflicts -> violations with a replay directory holding the TU
    for key, hs_, lang, msg in conflicts[:12]:
        d = os.path.join(core.REPLAY_DIR, 'C20-compile-%s-%s' % (lang.replace('+', 'x'), re.sub(r'\W', '_', '__'.join(hs_))[:120]))
        os.makedirs(d, exist_ok=True)
        ext = 'c' if lang == 'C' else 'cpp'
        open(os.path.join(d, 'tu.' + ext), 'w').write(tu_text(hs_))
        open(os.path.join(d, 'README'), 'w').write(
            ('gcc -std=gnu99 -fsyntax-only -I/repo/include tu.c' if lang == 'C' else
             'clang++-14 -std=c++17 -fsyntax-only -I/repo/include tu.cpp') + '\n' + msg + '\n')
        chk.add_violation_external('%s: %s' % (key, msg.strip().splitlines()[0][:200] if msg.strip() else ''), d, msg)
    if len(conflicts) > 12:
        chk.notes.append('%d further compile conflicts: %s' % (len(conflicts) - 12, [c[0] for c in conflicts[12:40]]))
    chk.extra_cov.update({'extra_obligations': n_compile, 'extra_discharged': n_compile_ok, 'extra_queries': n_compile,
                          'extra_distinct': len(tasks),
                          'headers': hs, 'ordered_pairs': len(hs) * (len(hs) - 1),
                          'front_end_compilations': n_compile, 'front_end_compilations_ok': n_compile_ok,
                          'full_set_orders': [o for o, _ in fullsets],
                          'public_names_per_header': {h: len(v) for h, v in base.items()}})
    chk.assumptions = STD_ASSUME + [
        'the "compiles" half is a verdict of the front ends (goto-cc/gcc for C99, clang++-14 for C++17), not a solver query',
        'subsets larger than pairs are covered through the three full-set orders only ("all ordered pairs suffice '
        'for pairwise conflicts" per the property\'s quantifier)',
        'meaning = integer value of every enumerator / integer macro, sizeof of every public type; for field '
        'enumerators the value determines the designated field because the library is compiled separately; the '
        'full-set orders additionally check the designation through the real reader on a symbolic buffer',
        'VERIF_SEED only selects the shuffled full-set order']
    return chk.finish(
        rule='compile matrix: 26 headers alone + 650 ordered pairs + 3 full-set orders, in C and C++; meaning: one '
             'CBMC query per first header (one TU per ordered pair, constant obligations per public name) + one query '
             'per full-set order with every field enumerator checked through the by-identifier reader',
        explanation='front-end verdicts for "compiles"; CBMC-decided assertions for "keeps its meaning"',
        trusted=TRUSTED + ['gcc/goto-cc C front ends, clang++-14 C++ front end'],
        checker_cmd='goto-cc -c / gcc -fsyntax-only / clang++-14 -std=c++17 -fsyntax-only on generated TUs; ' + CHECKER)
