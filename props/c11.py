"""C11 - invalid arguments are rejected without side effects."""
from .common import *
from gen import invalid as I


def run(tier, only=None):
    chk = Check('C11', tier)
    jobs = []
    for b in bindings(only, chk):
        src, n = I.c11(b)
        for be in ((False, True) if tier == 'thorough' else (False,)):
            jobs.append(Job('c11.%s.%s' % (b.fmt, 'be' if be else 'le'), src, b.sources, be=be, unwind=70,
                            unwindset=WALKER,
                            meta={'format': b.fmt, 'cases': n,
                                  'domain': 'field id = any 32-bit int; pdu in {NULL, valid}; result in {NULL, valid}; all values'}))
    chk.run(jobs)
    chk.assumptions = STD_ASSUME + [
        'scope: generic and dedicated accessors, initialisers, legacy wrappers; message builders and VSS codecs '
        '(which document non-NULL arguments) are not part of this property',
        'an out-of-range identifier is passed as (enum type)int, as a C caller would']
    return chk.finish(
        rule='one query per format: NULL PDU through every accessor/initialiser; every int outside the enumeration '
             'through the by-identifier reader/writer; legacy wrappers over {NULL,valid} PDU x {NULL,valid} result x any id',
        explanation='symbolic field identifier over all 2^32 values and symbolic argument validity; CBMC pointer '
                    'checks decide "no fault", byte comparison with the snapshot decides "no memory written"',
        trusted=TRUSTED, checker_cmd=CHECKER)
