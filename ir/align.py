"""
C15 (half 2): no library access assumes more than the alignment its types promise.

For every translation unit of the library and every optimisation level, clang-14's LLVM IR
(typed pointers) is parsed.  For every load / store / memcpy / memset operand with alignment
k > 1 the pointer operand is followed through getelementptr / bitcast / phi / select to its
roots.  Each (access, root) pair becomes one SMT query over 64-bit bit-vectors:

    root  = 0  (mod promised alignment of the root)
    addr  = root + sum(index_j * scale_j) + const      (index_j free unless constant)
    ask   addr mod k != 0

unsat -> the access is justified by the types; sat -> the model is a placement (address residue
and indices) for which the access is misaligned.  The queries are decided by z3 and cross-checked
with cvc5.  Nothing here is specific to the repository: it works from the IR of the current tree.
"""
import os
import re
import subprocess
import sys

REPO = os.environ.get('VP_REPO', '/repo')


# ---------------------------------------------------------------------------------- types
class Types:
    def __init__(self):
        self.named = {}       # %struct.x -> body text

    def split_top(self, s):
        out, depth, cur = [], 0, ''
        for ch in s:
            if ch in '{[<(':
                depth += 1
            elif ch in '}]>)':
                depth -= 1
            if ch == ',' and depth == 0:
                out.append(cur.strip())
                cur = ''
            else:
                cur += ch
        if cur.strip():
            out.append(cur.strip())
        return out

    def size_align(self, t):
        t = t.strip()
        if t.endswith('*'):
            return 8, 8
        m = re.match(r'i(\d+)$', t)
        if m:
            b = (int(m.group(1)) + 7) // 8
            a = 1
            while a < b and a < 8:
                a *= 2
            return b, a
        if t == 'float':
            return 4, 4
        if t == 'double':
            return 8, 8
        if t == 'half':
            return 2, 2
        if t in ('void', 'label', 'metadata') or t == 'opaque':
            return 0, 1
        m = re.match(r'\[(\d+) x (.*)\]$', t)
        if m:
            s, a = self.size_align(m.group(2))
            return int(m.group(1)) * s, a
        m = re.match(r'<(\d+) x (.*)>$', t)
        if m and not t.startswith('<{'):
            s, a = self.size_align(m.group(2))
            tot = int(m.group(1)) * s
            al = 1
            while al < tot:
                al *= 2
            return tot, min(al, 64)
        if t.startswith('<{') and t.endswith('}>'):
            fs = self.split_top(t[2:-2])
            return sum(self.size_align(f)[0] for f in fs), 1
        if t.startswith('{') and t.endswith('}'):
            off, al = 0, 1
            for f in self.split_top(t[1:-1]):
                s, a = self.size_align(f)
                off = (off + a - 1) // a * a + s
                al = max(al, a)
            return (off + al - 1) // al * al, al
        if t.startswith('%'):
            if t not in self.named:
                return 0, 1
            return self.size_align(self.named[t])
        if '(' in t:      # function type
            return 0, 1
        return 0, 1

    def body(self, t):
        t = t.strip()
        while t.startswith('%') and t in self.named:
            t = self.named[t]
        return t

    def field_offset(self, t, idx):
        """(offset, field type) of member idx of struct type t"""
        b = self.body(t)
        packed = b.startswith('<{')
        inner = b[2:-2] if packed else b[1:-1]
        off = 0
        for i, f in enumerate(self.split_top(inner)):
            s, a = self.size_align(f)
            if not packed:
                off = (off + a - 1) // a * a
            if i == idx:
                return off, f
            off += s
        raise IndexError((t, idx))


def pointee(t):
    t = t.strip()
    return t[:-1].strip() if t.endswith('*') else None


# ---------------------------------------------------------------------------------- parse
RE_DEF = re.compile(r'^define\s+.*?@([\w.$]+)\((.*)\)[^{]*\{\s*$')
RE_ASSIGN = re.compile(r'^\s*(%[\w.$]+)\s*=\s*(.*)$')


def split_args(s):
    t = Types()
    return t.split_top(s)


class Func:
    def __init__(self, name):
        self.name = name
        self.args = {}     # %name -> (type, explicit align or None)
        self.defs = {}     # %name -> instruction text
        self.insts = []    # all instruction texts (with optional lhs)


def parse_module(text):
    types = Types()
    funcs = []
    globs = {}
    cur = None
    for line in text.splitlines():
        line = line.split(' !dbg')[0]
        m = re.match(r'^(%[\w.$]+)\s*=\s*type\s+(.*)$', line)
        if m:
            types.named[m.group(1)] = m.group(2).strip()
            continue
        m = re.match(r'^(@[\w.$]+)\s*=.*?(?:global|constant)\s+(.*?)(?:,\s*align\s+(\d+))?\s*$', line)
        if m and cur is None:
            globs[m.group(1)] = int(m.group(3)) if m.group(3) else 1
            continue
        m = RE_DEF.match(line)
        if m:
            cur = Func(m.group(1))
            n = 0
            for a in split_args(m.group(2)):
                if a == '...' or not a:
                    continue
                toks = a.split()
                nm = toks[-1] if toks[-1].startswith('%') else '%%%d' % n
                ty = toks[0]
                # type may contain spaces for arrays/structs; take up to first attribute keyword
                mt = re.match(r'((?:\[[^\]]*\]|\{[^}]*\}|<[^>]*>|[%\w.$]+)(?:\s*\*)*)', a)
                if mt:
                    ty = mt.group(1).replace(' *', '*')
                ma = re.search(r'\balign\s+(\d+)', a)
                cur.args[nm] = (ty, int(ma.group(1)) if ma else None)
                n += 1
            funcs.append(cur)
            continue
        if cur is not None:
            if line.strip() == '}':
                cur = None
                continue
            s = line.strip()
            if not s or s.endswith(':') and not s.startswith('%') and '=' not in s:
                continue
            m = RE_ASSIGN.match(line)
            if m:
                cur.defs[m.group(1)] = m.group(2).strip()
            cur.insts.append(s)
    return types, globs, funcs


# ---------------------------------------------------------------------------------- resolve
class Alt:
    """one way an address can be formed: root + sum(scale*var) + const"""
    def __init__(self, root, promised, why, terms=None, const=0):
        self.root, self.promised, self.why = root, promised, why
        self.terms = list(terms or [])   # (scale, 'free') entries
        self.const = const

    def plus(self, terms, const):
        return Alt(self.root, self.promised, self.why, self.terms + terms, self.const + const)


def parse_typed_operand(s):
    """'T* %x' or 'T* getelementptr inbounds (...)' -> (type, value text)"""
    s = s.strip()
    depth = 0
    for i, ch in enumerate(s):
        if ch in '[{<(':
            depth += 1
        elif ch in ']}>)':
            depth -= 1
        elif ch == ' ' and depth == 0:
            rest = s[i + 1:].lstrip()
            if rest.startswith('*'):
                continue
            ty = s[:i].strip()
            # attributes between type and value
            rest = re.sub(r'^(?:(?:noundef|nonnull|nocapture|readonly|writeonly|noalias|align \d+|dereferenceable\(\d+\)|dereferenceable_or_null\(\d+\)|signext|zeroext)\s+)*', '', rest)
            return ty, rest
    return s, ''


def gep_offsets(types, base_ty, idx_ops):
    """base_ty: pointee type of the base pointer; idx_ops: list of 'iN val' -> (terms, const)"""
    terms, const = [], 0
    cur = base_ty
    for n, op in enumerate(idx_ops):
        ty, val = op.strip().split(None, 1)
        val = val.strip()
        if n == 0:
            scale = types.size_align(cur)[0]
            nxt = cur
        else:
            b = types.body(cur)
            if b.startswith('[') or (b.startswith('<') and not b.startswith('<{')):
                m = re.match(r'[\[<](\d+) x (.*)[\]>]$', b)
                nxt = m.group(2)
                scale = types.size_align(nxt)[0]
            else:
                off, nxt = types.field_offset(cur, int(val))
                const += off
                cur = nxt
                continue
        if re.match(r'-?\d+$', val):
            const += int(val) * scale
        else:
            terms.append((scale, 'free'))
        cur = nxt
    return terms, const


def resolve(types, globs, fn, val, ty, stack, depth=0):
    """-> list of Alt (or ('CYCLE', name) markers)"""
    val = val.strip()
    if depth > 60:
        return [Alt('deep:' + val, 1, 'resolution depth exceeded (treated as byte aligned)')]
    if val.startswith('getelementptr') or val.startswith('bitcast') or val.startswith('addrspacecast'):
        # constant expression
        inner = val[val.index('(') + 1:val.rindex(')')]
        if val.startswith('bitcast') or val.startswith('addrspacecast'):
            src = inner.rsplit(' to ', 1)[0]
            t2, v2 = parse_typed_operand(src)
            return resolve(types, globs, fn, v2, t2, stack, depth + 1)
        parts = types.split_top(inner)
        bty = parts[0]
        t2, v2 = parse_typed_operand(parts[1])
        terms, const = gep_offsets(types, bty, parts[2:])
        return [a.plus(terms, const) if isinstance(a, Alt) else a
                for a in resolve(types, globs, fn, v2, t2, stack, depth + 1)]
    if val.startswith('@'):
        return [Alt(val, globs.get(val, 1), 'global with its declared alignment')]
    if val in ('null', 'undef', 'poison'):
        return []
    if val in fn.args:
        aty, al = fn.args[val]
        pt = pointee(aty) or 'i8'
        prom = max(types.size_align(pt)[1], al or 1)
        return [Alt('arg ' + val + ' : ' + aty, prom, 'caller provides an object of type %s (ABI alignment %d)' % (pt, prom))]
    if val not in fn.defs:
        return [Alt('unknown ' + val, 1, 'unknown origin (treated as byte aligned)')]
    if val in stack:
        return [('CYCLE', val)]
    ins = fn.defs[val]
    op = ins.split()[0]
    if op == 'alloca':
        m = re.search(r'align (\d+)', ins)
        return [Alt('alloca ' + val, int(m.group(1)) if m else 1, 'stack object with its own alignment')]
    if op in ('bitcast', 'addrspacecast'):
        src = ins[len(op):].rsplit(' to ', 1)[0]
        t2, v2 = parse_typed_operand(src)
        return resolve(types, globs, fn, v2, t2, stack + [val], depth + 1)
    if op == 'getelementptr':
        body = ins[len('getelementptr'):].strip()
        if body.startswith('inbounds'):
            body = body[len('inbounds'):].strip()
        parts = types.split_top(body)
        bty = parts[0]
        t2, v2 = parse_typed_operand(parts[1])
        terms, const = gep_offsets(types, bty, parts[2:])
        out = []
        for a in resolve(types, globs, fn, v2, t2, stack + [val], depth + 1):
            if isinstance(a, Alt):
                out.append(a.plus(terms, const))
            else:
                out.append(('CYCLE', a[1], terms, const) if len(a) == 2 else
                           ('CYCLE', a[1], a[2] + terms, a[3] + const))
        return out
    if op == 'phi':
        m = re.match(r'phi\s+(.*?)\s+(\[.*)$', ins)
        alts, strides = [], []
        for inc in re.findall(r'\[\s*(.*?),\s*%[\w.$]+\s*\]', m.group(2)):
            for a in resolve(types, globs, fn, inc, m.group(1), stack + [val], depth + 1):
                if isinstance(a, Alt):
                    alts.append(a)
                elif a[1] == val:
                    tr = a[2] if len(a) > 2 else []
                    c = a[3] if len(a) > 2 else 0
                    strides += [(s, 'free') for s, _ in tr]
                    if c:
                        strides.append((abs(c), 'free'))
                else:
                    alts.append(a)   # cycle through an outer phi: propagate
        return [a.plus(strides, 0) if isinstance(a, Alt) else a for a in alts]
    if op == 'select':
        m = re.match(r'select\s+i1\s+[^,]+,\s*(.*)$', ins)
        ops = types.split_top(m.group(1))
        out = []
        for o in ops:
            t2, v2 = parse_typed_operand(o)
            out += resolve(types, globs, fn, v2, t2, stack + [val], depth + 1)
        return out
    if op == 'load':
        m = re.match(r'load\s+(?:volatile\s+)?(.*?),', ins)
        lt = m.group(1).strip()
        pt = pointee(lt) or 'i8'
        prom = types.size_align(pt)[1]
        return [Alt('pointer loaded from memory: ' + val + ' : ' + lt, prom,
                    'pointer stored by the caller with type %s (ABI alignment %d)' % (lt, prom))]
    if op in ('call', 'tail', 'musttail', 'notail', 'invoke'):
        m = re.search(r'call\s+(?:[\w()]+\s+)*?((?:%[\w.$]+|i\d+|void|\[.*?\]|\{.*?\})\**)\s+@?([\w.$]*)', ins)
        rt = m.group(1) if m else 'i8*'
        pt = pointee(rt) or 'i8'
        prom = types.size_align(pt)[1]
        ma = re.search(r'call\s+[^@]*?align\s+(\d+)', ins)
        if ma:
            prom = max(prom, int(ma.group(1)))
        return [Alt('call result ' + val + ' : ' + rt, prom, 'pointer returned with type %s' % rt)]
    if op == 'inttoptr':
        return [Alt('inttoptr ' + val, 1, 'address computed from an integer (treated as byte aligned)')]
    return [Alt('other ' + val + ' = ' + op, 1, 'unhandled producer (treated as byte aligned)')]


# ---------------------------------------------------------------------------------- accesses
def accesses(types, globs, fn):
    """yield (kind, accessed type, align, pointer type, pointer value, instruction)"""
    for ins in fn.insts:
        body = ins
        m = RE_ASSIGN.match(ins)
        if m:
            body = m.group(2).strip()
        if body.startswith('load '):
            m = re.match(r'load\s+(?:atomic\s+)?(?:volatile\s+)?(.*?),\s*(.*?)(?:,\s*align\s+(\d+))?(?:,\s*!.*)?$', body)
            if not m:
                continue
            pt, pv = parse_typed_operand(re.sub(r'\s+(?:seq_cst|acquire|monotonic|unordered)\b.*$', '', m.group(2)))
            al = int(m.group(3)) if m.group(3) else types.size_align(m.group(1))[1]
            yield ('load', m.group(1).strip(), al, pt, pv, ins)
        elif body.startswith('store '):
            m = re.match(r'store\s+(?:atomic\s+)?(?:volatile\s+)?(.*?)(?:,\s*align\s+(\d+))?(?:,\s*!.*)?$', body)
            if not m:
                continue
            ops = types.split_top(m.group(1))
            if len(ops) < 2:
                continue
            vt, _ = parse_typed_operand(ops[0])
            pt, pv = parse_typed_operand(ops[1])
            al = int(m.group(2)) if m.group(2) else types.size_align(vt)[1]
            yield ('store', vt, al, pt, pv, ins)
        elif 'call' in body and ('@llvm.memcpy' in body or '@llvm.memmove' in body or '@llvm.memset' in body):
            inner = body[body.index('(') + 1:body.rindex(')')]
            ops = types.split_top(inner)
            nptr = 1 if '@llvm.memset' in body else 2
            for k in range(nptr):
                o = ops[k]
                ma = re.search(r'\balign\s+(\d+)', o)
                al = int(ma.group(1)) if ma else 1
                pt, pv = parse_typed_operand(o)
                yield ('memcpy-dst' if k == 0 and nptr == 2 else ('memset' if nptr == 1 else 'memcpy-src'),
                       'i8', al, pt, pv, ins)


# ---------------------------------------------------------------------------------- SMT
def smt_query(alt, k):
    lines = ['(push 1)', '(declare-const r (_ BitVec 64))']
    lines.append('(assert (= (bvand r #x%016x) #x%016x))' % (alt.promised - 1, 0))
    addr = 'r'
    for i, (scale, _) in enumerate(alt.terms):
        lines.append('(declare-const i%d (_ BitVec 64))' % i)
        addr = '(bvadd %s (bvmul i%d #x%016x))' % (addr, i, scale & (2 ** 64 - 1))
    addr = '(bvadd %s #x%016x)' % (addr, alt.const & (2 ** 64 - 1))
    lines.append('(assert (not (= (bvand %s #x%016x) #x%016x)))' % (addr, k - 1, 0))
    lines.append('(check-sat)')
    lines.append('(get-value (r))')
    lines.append('(pop 1)')
    return '\n'.join(lines)


def run_solver(cmd, script):
    p = subprocess.run(cmd, input=script.encode(), stdout=subprocess.PIPE, stderr=subprocess.PIPE, timeout=600)
    out = p.stdout.decode(errors='replace')
    if '(error' in out and 'model is not available' not in out and 'cannot get value' not in out.lower():
        bad = [l for l in out.splitlines() if '(error' in l and 'model' not in l and 'get-value' not in l.lower()
               and 'unsat' not in l]
        if bad:
            raise RuntimeError('solver error: ' + bad[0])
    res = []
    toks = out.splitlines()
    i = 0
    while i < len(toks):
        t = toks[i].strip()
        if t in ('sat', 'unsat', 'unknown'):
            model = None
            if t == 'sat' and i + 1 < len(toks):
                m = re.search(r'#x([0-9a-fA-F]+)', toks[i + 1])
                if m:
                    model = int(m.group(1), 16)
            res.append((t, model))
        i += 1
    return res


def emit_ir(src, level, extra_inc=()):
    inc = ['-I' + os.path.join(REPO, 'include')] + ['-I' + i for i in extra_inc]
    if level == 'O0':
        p1 = subprocess.run(['clang-14', '-S', '-emit-llvm', '-O0', '-Xclang', '-disable-O0-optnone', '-w'] + inc +
                            [src, '-o', '-'], stdout=subprocess.PIPE, stderr=subprocess.PIPE)
        if p1.returncode:
            raise RuntimeError('clang failed on %s: %s' % (src, p1.stderr.decode()[-400:]))
        p2 = subprocess.run(['opt-14', '-mem2reg', '-S', '-o', '-'], input=p1.stdout, stdout=subprocess.PIPE,
                            stderr=subprocess.PIPE)
        if p2.returncode:
            raise RuntimeError('opt failed: ' + p2.stderr.decode()[-400:])
        return p2.stdout.decode()
    p = subprocess.run(['clang-14', '-S', '-emit-llvm', '-' + level, '-w'] + inc + [src, '-o', '-'],
                       stdout=subprocess.PIPE, stderr=subprocess.PIPE)
    if p.returncode:
        raise RuntimeError('clang failed on %s: %s' % (src, p.stderr.decode()[-400:]))
    return p.stdout.decode()


def analyse(src, level):
    """-> (list of obligations, list of findings); each a dict"""
    text = emit_ir(src, level)
    types, globs, funcs = parse_module(text)
    obl = []
    for fn in funcs:
        for kind, aty, al, pt, pv, ins in accesses(types, globs, fn):
            if al <= 1:
                continue
            for a in resolve(types, globs, fn, pv, pt, []):
                if not isinstance(a, Alt):
                    continue
                obl.append({'tu': os.path.relpath(src, REPO), 'level': level, 'function': fn.name, 'kind': kind,
                            'type': aty, 'align': al, 'root': a.root, 'promised': a.promised, 'why': a.why,
                            'terms': [s for s, _ in a.terms], 'const': a.const, 'ins': ins[:160], '_alt': a})
    if not obl:
        return obl, []
    script = '(set-logic QF_BV)\n(set-option :produce-models true)\n' + '\n'.join(smt_query(o['_alt'], o['align']) for o in obl)
    r1 = run_solver(['z3', '-in'], script)
    r2 = run_solver(['cvc5', '--incremental', '--produce-models', '--lang', 'smt2'], script)
    if len(r1) != len(obl) or len(r2) != len(obl):
        raise RuntimeError('solver answered %d/%d of %d queries' % (len(r1), len(r2), len(obl)))
    finds = []
    for o, (a1, m1), (a2, m2) in zip(obl, r1, r2):
        if a1 != a2 or a1 == 'unknown':
            raise RuntimeError('solvers disagree / unknown on %s: z3=%s cvc5=%s' % (o['ins'], a1, a2))
        o['verdict'] = a1
        o['model_root_address'] = m1
        del o['_alt']
        if a1 == 'sat':
            finds.append(o)
    return obl, finds


if __name__ == '__main__':
    src = sys.argv[1]
    for lvl in (sys.argv[2:] or ['O0', 'O2']):
        obl, finds = analyse(os.path.join(REPO, src) if not os.path.isabs(src) else src, lvl)
        print(src, lvl, len(obl), 'obligations,', len(finds), 'unjustified')
        for f in finds[:40]:
            print('  ', f['function'], f['kind'], f['type'], 'align', f['align'], '| root:', f['root'], 'promised', f['promised'],
                  '| residue model: %s' % (hex(f['model_root_address']) if f['model_root_address'] is not None else '?'))
