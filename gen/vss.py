"""C07 / C08: VSS path and value encoding / decoding against a reference codec written from
acf-vss.md (big-endian integers, IEEE-754 bit patterns, 16-bit BE byte-length prefixes)."""
from spec import wire_spec as W

H = W.FORMATS['vss']['len']
F_MODE = W.field('vss', 'addr_mode')
F_DT = W.field('vss', 'vss_datatype')

# name -> (union member, element C type used for typed load, struct type for variable kinds)
CNAME = {
    'uint8': ('data_uint8', 'uint8_t', None), 'int8': ('data_int8', 'uint8_t', None),
    'uint16': ('data_uint16', 'uint16_t', None), 'int16': ('data_int16', 'uint16_t', None),
    'uint32': ('data_uint32', 'uint32_t', None), 'int32': ('data_int32', 'uint32_t', None),
    'uint64': ('data_uint64', 'uint64_t', None), 'int64': ('data_int64', 'uint64_t', None),
    'bool': ('data_bool', 'uint8_t', None), 'float': ('data_float', 'uint32_t', None),
    'double': ('data_double', 'uint64_t', None),
    'string': ('data_string', 'uint8_t', 'VssDataString_t'),
    'uint8_array': ('data_uint8_array', 'uint8_t', 'VssDataUint8Array_t'),
    'int8_array': ('data_int8_array', 'uint8_t', 'VssDataInt8Array_t'),
    'uint16_array': ('data_uint16_array', 'uint16_t', 'VssDataUint16Array_t'),
    'int16_array': ('data_int16_array', 'uint16_t', 'VssDataInt16Array_t'),
    'uint32_array': ('data_uint32_array', 'uint32_t', 'VssDataUint32Array_t'),
    'int32_array': ('data_int32_array', 'uint32_t', 'VssDataInt32Array_t'),
    'uint64_array': ('data_uint64_array', 'uint64_t', 'VssDataUint64Array_t'),
    'int64_array': ('data_int64_array', 'uint64_t', 'VssDataInt64Array_t'),
    'bool_array': ('data_bool_array', 'uint8_t', 'VssDataBoolArray_t'),
    'float_array': ('data_float_array', 'uint32_t', 'VssDataFloatArray_t'),
    'double_array': ('data_double_array', 'uint64_t', 'VssDataDoubleArray_t'),
    'string_array': ('data_string_array', 'uint8_t', 'VssDataStringArray_t'),
}
UTYPE = {1: 'uint8_t', 2: 'uint16_t', 4: 'uint32_t', 8: 'uint64_t'}

PRELUDE = r'''
#include "vp.h"
#include "avtp/acf/custom/Vss.h"
/* reference codec, from acf-vss.md: big-endian, most significant byte first */
static void ref_be(uint8_t *dst, uint64_t v, unsigned size)
{ for (unsigned k = 0; k < size; k++) dst[k] = (uint8_t)(v >> (8u * (size - 1u - k))); }
/* host-order element e of `size` bytes from a memory image (bit pattern, also for IEEE floats) */
static uint64_t host_elem(const uint8_t *img, unsigned e, unsigned size)
{ uint64_t v = 0;
  if (size == 1) { uint8_t t; memcpy(&t, img + e, 1); v = t; }
  else if (size == 2) { uint16_t t; memcpy(&t, img + 2u * e, 2); v = t; }
  else if (size == 4) { uint32_t t; memcpy(&t, img + 4u * e, 4); v = t; }
  else { uint64_t t; memcpy(&t, img + 8u * e, 8); v = t; }
  return v; }
'''


def _set_header(var, mode, code):
    # the oracle puts vss_datatype in one whole byte: store it as a constant byte so that the
    # symbolic executor sees a concrete datatype (spec_put on a symbolic byte is not folded)
    assert F_DT['off'] % 8 == 0 and F_DT['width'] == 8
    return ['  spec_put(%s, %d, %d, %s); %s[%d] = (uint8_t)(%s);'
            % (var, F_MODE['off'], F_MODE['width'], mode, var, F_DT['off'] // 8, code)]


def _ref_path(mode, P, plen_expr, concrete=None):
    """statements writing the reference path into ref[], defining `pl` (on-wire path size)"""
    s = []
    if mode == W.VSS_ADDR_INTEROP:
        s.append('  ref[%d] = (uint8_t)(%s >> 8); ref[%d] = (uint8_t)(%s);' % (H, plen_expr, H + 1, plen_expr))
        if concrete is None:
            s.append('  for (unsigned k = 0; k < %d; k++) if (k < %s) ref[%d + k] = in.path[k];' % (P, plen_expr, H + 2))
        elif concrete:
            s.append('  memcpy(ref + %d, in.path, %d);' % (H + 2, concrete))
        s.append('  unsigned pl = 2u + %s;' % plen_expr)
    else:
        s.append('  ref_be(ref + %d, in.sid, 4); unsigned pl = 4u;' % H)
    return s


def _ref_value(code, D, dlen_expr, conc=None):
    """statements writing the reference value at ref[H + pl ...], defining `vl` (value size)"""
    name, size, kind = W.VSS_TYPES[code]
    s = ['  unsigned o = %du + pl;' % H]
    if kind == 'scalar':
        s.append('  ref_be(ref + o, host_elem(in.src, 0, %d), %d); unsigned vl = %du;' % (size, size, size))
        return s
    s.append('  ref[o] = (uint8_t)(%s >> 8); ref[o + 1] = (uint8_t)(%s); unsigned vl = 2u + %s;' % (dlen_expr, dlen_expr, dlen_expr))
    if kind == 'bytes':
        if conc is None:
            s.append('  for (unsigned k = 0; k < %d; k++) if (k < %s) ref[o + 2 + k] = in.src[k];' % (D, dlen_expr))
        elif conc:
            s.append('  memcpy(ref + o + 2, in.src, %d);' % conc)
    else:
        n = (D if conc is None else conc) // size
        guard = 'if (e * %du < %s) ' % (size, dlen_expr) if conc is None else ''
        if n:
            s.append('  for (unsigned e = 0; e < %d; e++) %sref_be(ref + o + 2 + e * %du, host_elem(in.src, e, %d), %d);'
                     % (n, guard, size, size, size))
    return s


def _make_value(code, D, dlen_expr, exact=None):
    """statements building the caller's VssData_t `val` from the symbolic image in.src"""
    name, size, kind = W.VSS_TYPES[code]
    member, etype, stype = CNAME[name]
    s = []
    if kind == 'scalar':
        s.append('  VssData_t val; memset(&val, 0, sizeof val); VssData_t *valp = &val;')
        s.append('  memcpy(&val.%s, in.src, %d);' % (member, size))
    else:
        # the caller's VssData_t holds a pointer: represented as an object of that pointer type
        # (same size and alignment as the union); CBMC's big-endian model mishandles a pointer
        # stored through the union type (tool artefact, reproduced in isolation - see DESIGN.md)
        n = D if exact is None else exact
        s.append('  %s sv; sv.data_length = %s; sv.data = (void *)vp_obj_from(in.src, %d);' % (stype, dlen_expr, n))
        s.append('  %s *slot = &sv; VssData_t *valp = (VssData_t *)&slot;' % stype)
        s.append('  VP_ASSERT(sizeof(VssData_t) == sizeof(slot), "harness: VssData_t has the size of a pointer");')
    return s


def c07_functional(code, mode, P, D):
    name, size, kind = W.VSS_TYPES[code]
    M = H + 2 + P + 2 + D + 8
    o = [PRELUDE]
    o.append('typedef struct { uint8_t mem[%d]; uint8_t path[%d]; uint16_t plen; uint32_t sid; uint8_t src[%d]; uint16_t dlen; } vp_in_t;' % (M, max(P, 1), max(D, 8)))
    o.append('void harness(void) {')
    o.append('  VP_INPUT(vp_in_t, in);')
    o.append('  VP_ASSUME(in.plen <= %d); VP_ASSUME(in.dlen <= %d); VP_ASSUME(in.dlen %% %d == 0);' % (P, D, size))
    o.append('  uint8_t *obj = vp_pdu_from(in.mem, %d);' % M)
    o += _set_header('obj', mode, '0x%02x' % code)
    o.append('  static uint8_t ref[%d]; memcpy(ref, obj, %d);' % (M, M))
    o.append('  Avtp_Vss_t *pdu = (Avtp_Vss_t *)obj;')
    o.append('  VssPath_t path; memset(&path, 0, sizeof path);')
    if mode == W.VSS_ADDR_INTEROP:
        o.append('  uint8_t *pbuf = vp_obj_from(in.path, %d); path.vss_interop_path.path_length = in.plen; path.vss_interop_path.path = (char *)pbuf;' % max(P, 1))
    else:
        o.append('  path.vss_static_id_path = in.sid;')
    o.append('  Avtp_Vss_SetVssPath(pdu, &path);')
    o += _ref_path(mode, P, 'in.plen')
    o.append('  VP_ASSERT(vp_bytes_eq(obj, ref, %d), "C07 %s path (%s) is encoded right after the fixed header exactly as the description prescribes; nothing else modified");'
             % (M, name, 'interop: 16-bit BE length + bytes' if mode == 0 else 'static: 32-bit BE id'))
    o.append('  VP_ASSERT(Avtp_Vss_CalcVssPathLength(pdu) == pl, "C07 on-wire path size is 2+len (interop) or 4 (static id)");')
    o += _make_value(code, max(D, 8), 'in.dlen')
    o.append('  Avtp_Vss_SetVssData(pdu, valp);')
    o += _ref_value(code, D, 'in.dlen')
    o.append('  VP_ASSERT(vp_bytes_eq(obj, ref, %d), "C07 %s value is encoded right after the path byte for byte as the reference encoding; no byte outside path and value regions modified");' % (M, name))
    o.append('  VP_REACH("c07 functional end");')
    o.append('}')
    return '\n'.join(o) + '\n'


def c07_reserved_mode(P, D, code):
    """reserved address modes (2, 3) with a valid datatype: path and value encoders write nothing"""
    M = H + 2 + P + 2 + D + 8
    name, size, kind = W.VSS_TYPES[code]
    o = [PRELUDE]
    o.append('typedef struct { uint8_t mem[%d]; uint8_t path[%d]; uint16_t plen; uint32_t sid; uint8_t src[%d]; uint16_t dlen; uint8_t mode, which; } vp_in_t;' % (M, max(P, 1), max(D, 8)))
    o.append('void harness(void) {')
    o.append('  VP_INPUT(vp_in_t, in);')
    o.append('  VP_ASSUME(in.plen <= %d); VP_ASSUME(in.dlen <= %d); VP_ASSUME(in.mode == 2 || in.mode == 3);' % (P, D))
    o.append('  uint8_t *obj = vp_pdu_from(in.mem, %d);' % M)
    o += _set_header('obj', 'in.mode', '0x%02x' % code)
    o.append('  Avtp_Vss_t *pdu = (Avtp_Vss_t *)obj;')
    o.append('  VssPath_t path; memset(&path, 0, sizeof path);')
    o.append('  uint8_t *pbuf = vp_obj_from(in.path, %d);' % max(P, 1))
    o.append('  if (in.which & 1) { path.vss_interop_path.path_length = in.plen; path.vss_interop_path.path = (char *)pbuf; } else path.vss_static_id_path = in.sid;')
    o.append('  static uint8_t snap[%d]; memcpy(snap, obj, %d);' % (M, M))
    o.append('  Avtp_Vss_SetVssPath(pdu, &path);')
    o.append('  VP_ASSERT(vp_bytes_eq(obj, snap, %d), "C07 a reserved address mode makes the path encoder write nothing");' % M)
    o += _make_value(code, max(D, 8), 'in.dlen')
    o.append('  Avtp_Vss_SetVssData(pdu, valp);')
    o.append('  VP_ASSERT(vp_bytes_eq(obj, snap, %d), "C07 a reserved address mode makes the value encoder write nothing (%s)");' % (M, name))
    o.append('  VP_REACH("c07 reserved mode end");')
    o.append('}')
    return '\n'.join(o) + '\n'


def c07_reserved_datatype(P, D):
    """every reserved datatype code (symbolic over all of them), valid address modes: the value
    encoder writes nothing"""
    M = H + 2 + P + 2 + D + 8
    valid = sorted(W.VSS_TYPES)
    o = [PRELUDE]
    o.append('typedef struct { uint8_t mem[%d]; uint8_t path[%d]; uint16_t plen; uint32_t sid; uint8_t src[%d]; uint16_t dlen; uint8_t mode, dt, ptr; } vp_in_t;' % (M, max(P, 1), max(D, 8)))
    o.append('void harness(void) {')
    o.append('  VP_INPUT(vp_in_t, in);')
    o.append('  VP_ASSUME(in.plen <= %d); VP_ASSUME(in.dlen <= %d); VP_ASSUME(in.mode < 2);' % (P, D))
    o.append('  VP_ASSUME(!(%s));' % ' || '.join('in.dt == 0x%02x' % c for c in valid))
    o.append('  uint8_t *pbuf = vp_obj_from(in.path, %d);' % max(P, 1))
    o.append('  VssDataUint8Array_t sv; sv.data_length = in.dlen; sv.data = vp_obj_from(in.src, %d);' % max(D, 8))
    o.append('  VssDataUint8Array_t *slot = &sv; VssData_t val; memcpy(&val, in.src, 8);')
    o.append('  uint8_t *obj = vp_pdu_from(in.mem, %d);' % M)
    o += _set_header('obj', 'in.mode', 'in.dt')
    o.append('  Avtp_Vss_t *pdu = (Avtp_Vss_t *)obj;')
    o.append('  VssPath_t path; memset(&path, 0, sizeof path);')
    o.append('  if (in.mode == 0) { path.vss_interop_path.path_length = in.plen; path.vss_interop_path.path = (char *)pbuf; } else path.vss_static_id_path = in.sid;')
    o.append('  Avtp_Vss_SetVssPath(pdu, &path);')
    o.append('  static uint8_t snap[%d]; memcpy(snap, obj, %d);' % (M, M))
    o.append('  Avtp_Vss_SetVssData(pdu, (in.ptr & 1) ? (VssData_t *)&slot : &val);')
    o.append('  VP_ASSERT(vp_bytes_eq(obj, snap, %d), "C07 a reserved datatype code makes the value encoder write nothing");' % M)
    o.append('  VP_REACH("c07 reserved datatype end");')
    o.append('}')
    return '\n'.join(o) + '\n'


def _pairs(code, mode, pmax, emax):
    name, size, kind = W.VSS_TYPES[code]
    ps = list(range(0, pmax + 1)) if mode == W.VSS_ADDR_INTEROP else [0]
    es = [0] if kind == 'scalar' else list(range(0, emax + 1))
    return [(p, e) for p in ps for e in es]


def c07_extent(code, mode, plen, count):
    """concrete sizes: message, path source and value source objects of EXACT extent"""
    name, size, kind = W.VSS_TYPES[code]
    dlen = size * count if kind != 'scalar' else size
    pl = (2 + plen) if mode == W.VSS_ADDR_INTEROP else 4
    vl = size if kind == 'scalar' else 2 + dlen
    M = H + pl + vl
    o = [PRELUDE]
    o.append('typedef struct { uint8_t mem[%d]; uint8_t path[%d]; uint32_t sid; uint8_t src[%d]; } vp_in_t;' % (M, max(plen, 1), max(dlen, 8)))
    o.append('void harness(void) {')
    o.append('  VP_INPUT(vp_in_t, in);')
    o.append('  uint8_t *obj = vp_pdu_from(in.mem, %d);' % M)
    o += _set_header('obj', mode, '0x%02x' % code)
    o.append('  uint8_t ref[%d]; memcpy(ref, obj, %d);' % (M, M))
    o.append('  Avtp_Vss_t *pdu = (Avtp_Vss_t *)obj;')
    o.append('  VssPath_t path; memset(&path, 0, sizeof path);')
    if mode == W.VSS_ADDR_INTEROP:
        o.append('  path.vss_interop_path.path_length = %d; path.vss_interop_path.path = (char *)vp_obj_from(in.path, %d);' % (plen, plen))
    else:
        o.append('  path.vss_static_id_path = in.sid;')
    o.append('  Avtp_Vss_SetVssPath(pdu, &path);')
    o += _ref_path(mode, plen, '%du' % plen, concrete=plen)
    o += _make_value(code, dlen, '%d' % dlen, exact=dlen)
    o.append('  Avtp_Vss_SetVssData(pdu, valp);')
    o += _ref_value(code, dlen, '%du' % dlen, conc=dlen)
    o.append('  VP_ASSERT(vp_bytes_eq(obj, ref, %d), "C07 %s message of exactly header+path+value bytes equals the reference encoding (exact-extent message, path and value sources)");' % (M, name))
    o.append('  VP_REACH("c07 extent end");')
    o.append('}')
    return '\n'.join(o) + '\n', M


# ------------------------------------------------------------------------------------------
# C08 decoding
# ------------------------------------------------------------------------------------------
def _decode_value_checks(code, D, dlen_expr, phase_sym, exact=None):
    name, size, kind = W.VSS_TYPES[code]
    member, etype, stype = CNAME[name]
    s = []
    if kind == 'scalar':
        s.append('  VssData_t out; memcpy(&out, in.out0, sizeof out);')
        s.append('  Avtp_Vss_GetVssData(pdu, &out);')
        s.append('  VP_ASSERT(vp_bytes_eq((const uint8_t *)&out.%s, in.src, %d), "C08 %s decoded value equals the original bit for bit");' % (member, size, name))
        return s
    n = D if exact is None else exact
    s.append('  %s dv; %s *oslot = &dv; VssData_t *outp = (VssData_t *)&oslot;' % (stype, stype))
    s.append('  /* phase 1: no destination -> only the length is reported */')
    s.append('  dv.data_length = in.junk; dv.data = 0;')
    s.append('  Avtp_Vss_GetVssData(pdu, outp);')
    s.append('  VP_ASSERT(dv.data_length == %s, "C08 %s length query reports the value length in bytes");' % (dlen_expr, name))
    s.append('  VP_ASSERT(dv.data == 0 && oslot == &dv, "C08 %s length query writes nothing but the length");' % name)
    s.append('  VP_ASSERT(vp_bytes_eq(obj, ref, MSZ), "C08 %s length query does not modify the message");' % name)
    s.append('  /* phase 2: destination of the reported length */')
    s.append('  /* the length field of the result object may hold anything on entry (one-shot decode into a fresh */')
    s.append('  /* or reused struct): symbolic, which includes "still holds the length reported by phase 1" */')
    s.append('  uint8_t *dest = vp_obj_from(in.out0, %d); dv.data = (void *)dest; dv.data_length = in.junk2;' % n)
    s.append('  Avtp_Vss_GetVssData(pdu, outp);')
    s.append('  VP_ASSERT(dv.data_length == %s, "C08 %s decode reports the value length in bytes");' % (dlen_expr, name))
    if exact is None:
        s.append('  { int ok = 1; for (unsigned k = 0; k < %d; k++) { uint8_t want = (k < %s) ? in.src[k] : in.out0[k]; if (dest[k] != want) ok = 0; }' % (D, dlen_expr))
        s.append('    VP_ASSERT(ok, "C08 %s decoded elements equal the originals bit for bit and nothing beyond the reported length is written"); }' % name)
    elif exact:
        s.append('  VP_ASSERT(vp_bytes_eq(dest, in.src, %d), "C08 %s decoded elements equal the originals bit for bit (exact-extent destination)");' % (exact, name))
    return s


def c08_functional(code, mode, P, D):
    name, size, kind = W.VSS_TYPES[code]
    M = H + 2 + P + 2 + D + 8
    o = [PRELUDE, '#define MSZ %d' % M]
    o.append('typedef struct { uint8_t mem[%d]; uint8_t path[%d]; uint16_t plen; uint32_t sid; uint8_t src[%d]; uint16_t dlen; uint8_t pout0[%d]; uint8_t out0[%d]; uint16_t junk, junk2; uint32_t junk32; } vp_in_t;'
             % (M, max(P, 1), max(D, 8), max(P, 1), max(D, 16)))
    o.append('void harness(void) {')
    o.append('  VP_INPUT(vp_in_t, in);')
    o.append('  VP_ASSUME(in.plen <= %d); VP_ASSUME(in.dlen <= %d); VP_ASSUME(in.dlen %% %d == 0);' % (P, D, size))
    o.append('  static uint8_t ref[%d]; memcpy(ref, in.mem, %d);' % (M, M))
    o += _set_header('ref', mode, '0x%02x' % code)
    o += _ref_path(mode, P, 'in.plen')
    o += _ref_value(code, D, 'in.dlen')
    o.append('  uint8_t *obj = vp_pdu_from(ref, %d); Avtp_Vss_t *pdu = (Avtp_Vss_t *)obj;   /* well-formed message from the REFERENCE encoder */' % M)
    o.append('  VP_ASSERT(Avtp_Vss_CalcVssPathLength(pdu) == pl, "C08 reported on-wire path size is correct");')
    o.append('  VssPath_t pout; memset(&pout, 0, sizeof pout);')
    if mode == W.VSS_ADDR_INTEROP:
        o.append('  uint8_t *pdst = vp_obj_from(in.pout0, %d); pout.vss_interop_path.path_length = in.junk; pout.vss_interop_path.path = (char *)pdst;' % max(P, 1))
        o.append('  Avtp_Vss_GetVssPath(pdu, &pout);')
        o.append('  VP_ASSERT(pout.vss_interop_path.path_length == in.plen, "C08 decoded interop path length equals the original");')
        o.append('  { int ok = 1; for (unsigned k = 0; k < %d; k++) { uint8_t want = (k < in.plen) ? in.path[k] : in.pout0[k]; if (pdst[k] != want) ok = 0; }' % max(P, 1))
        o.append('    VP_ASSERT(ok, "C08 decoded interop path bytes equal the original and nothing beyond the path length is written"); }')
    else:
        o.append('  pout.vss_static_id_path = in.junk32;')
        o.append('  Avtp_Vss_GetVssPath(pdu, &pout);')
        o.append('  VP_ASSERT(pout.vss_static_id_path == in.sid, "C08 decoded static id equals the original");')
    o += _decode_value_checks(code, D, 'in.dlen', None)
    o.append('  VP_ASSERT(vp_bytes_eq(obj, ref, %d), "C08 %s decoding does not modify the message");' % (M, name))
    o.append('  VP_REACH("c08 functional end");')
    o.append('}')
    return '\n'.join(o) + '\n'


def c08_extent(code, mode, plen, count):
    """message produced by the LIBRARY encoder (and compared with the reference) in an object of
    exactly header+path+value bytes; destinations of exactly the reported lengths"""
    name, size, kind = W.VSS_TYPES[code]
    dlen = size * count if kind != 'scalar' else size
    pl = (2 + plen) if mode == W.VSS_ADDR_INTEROP else 4
    vl = size if kind == 'scalar' else 2 + dlen
    M = H + pl + vl
    o = [PRELUDE, '#define MSZ %d' % M]
    o.append('typedef struct { uint8_t mem[%d]; uint8_t path[%d]; uint32_t sid; uint8_t src[%d]; uint8_t pout0[%d]; uint8_t out0[%d]; uint16_t junk, junk2; uint32_t junk32; } vp_in_t;'
             % (M, max(plen, 1), max(dlen, 8), max(plen, 1), max(dlen, 16)))
    o.append('void harness(void) {')
    o.append('  VP_INPUT(vp_in_t, in);')
    o.append('  uint8_t ref[%d]; memcpy(ref, in.mem, %d);' % (M, M))
    o += _set_header('ref', mode, '0x%02x' % code)
    o.append('  uint8_t *obj = vp_pdu_from(ref, %d); Avtp_Vss_t *pdu = (Avtp_Vss_t *)obj;' % M)
    o += _ref_path(mode, plen, '%du' % plen, concrete=plen)
    o += _ref_value(code, dlen, '%du' % dlen, conc=dlen)
    # library encoder produces the message
    o.append('  VssPath_t path; memset(&path, 0, sizeof path);')
    if mode == W.VSS_ADDR_INTEROP:
        o.append('  path.vss_interop_path.path_length = %d; path.vss_interop_path.path = (char *)vp_obj_from(in.path, %d);' % (plen, plen))
    else:
        o.append('  path.vss_static_id_path = in.sid;')
    o.append('  Avtp_Vss_SetVssPath(pdu, &path);')
    o += _make_value(code, dlen, '%d' % dlen, exact=dlen)
    o.append('  Avtp_Vss_SetVssData(pdu, valp);')
    o.append('  VP_ASSERT(vp_bytes_eq(obj, ref, %d), "C08 library-encoded message equals the reference encoding (round-trip premise)");' % M)
    o.append('  VP_ASSERT(Avtp_Vss_CalcVssPathLength(pdu) == %d, "C08 reported on-wire path size is correct");' % pl)
    o.append('  VssPath_t pout; memset(&pout, 0, sizeof pout);')
    if mode == W.VSS_ADDR_INTEROP:
        o.append('  uint8_t *pdst = vp_obj_from(in.pout0, %d); pout.vss_interop_path.path_length = in.junk; pout.vss_interop_path.path = (char *)pdst;' % plen)
        o.append('  Avtp_Vss_GetVssPath(pdu, &pout);')
        o.append('  VP_ASSERT(pout.vss_interop_path.path_length == %d, "C08 decoded interop path length equals the original");' % plen)
        if plen:
            o.append('  VP_ASSERT(vp_bytes_eq(pdst, in.path, %d), "C08 decoded interop path bytes equal the original (exact-extent destination)");' % plen)
    else:
        o.append('  pout.vss_static_id_path = in.junk32; Avtp_Vss_GetVssPath(pdu, &pout);')
        o.append('  VP_ASSERT(pout.vss_static_id_path == in.sid, "C08 decoded static id equals the original");')
    o += _decode_value_checks(code, dlen, '%d' % dlen, None, exact=dlen)
    o.append('  VP_ASSERT(vp_bytes_eq(obj, ref, %d), "C08 %s decoding does not modify the message");' % (M, name))
    o.append('  VP_REACH("c08 extent end");')
    o.append('}')
    return '\n'.join(o) + '\n', M



def c07_sequence(code1, mode1, pl1, cnt1, code2, mode2, pl2, cnt2):
    """buffer re-use: message 1 is encoded, then - in the same buffer, header switched with the library's
    own setters - message 2; the result must be the reference encoding of message 2 on top of the bytes
    message 1 left (the codec keeps no state between calls and depends only on the current bytes)"""
    def sizes(code, mode, plen, count):
        name, size, kind = W.VSS_TYPES[code]
        dlen = size * count if kind != 'scalar' else size
        pl = (2 + plen) if mode == W.VSS_ADDR_INTEROP else 4
        vl = size if kind == 'scalar' else 2 + dlen
        return dlen, pl, vl
    d1, p1, v1 = sizes(code1, mode1, pl1, cnt1)
    d2, p2, v2 = sizes(code2, mode2, pl2, cnt2)
    M = H + max(p1 + v1, p2 + v2) + 4
    o = [PRELUDE]
    o.append('typedef struct { uint8_t mem[%d]; uint8_t pathA[%d], pathB[%d]; uint32_t sidA, sidB; uint8_t srcA[%d], srcB[%d]; } vp_in_t;'
             % (M, max(pl1, 1), max(pl2, 1), max(d1, 8), max(d2, 8)))
    o.append('static void enc(Avtp_Vss_t *pdu, int mode, unsigned plen, uint8_t *pbytes, uint32_t sid, int code, unsigned dlen, uint8_t *src);')
    o.append('void harness(void) {')
    o.append('  VP_INPUT(vp_in_t, in);')
    o.append('  uint8_t *obj = vp_pdu_from(in.mem, %d); Avtp_Vss_t *pdu = (Avtp_Vss_t *)obj;' % M)
    steps = [(code1, mode1, pl1, d1, 'A'), (code2, mode2, pl2, d2, 'B')]
    for i, (code, mode, plen, dlen, tag) in enumerate(steps):
        name, size, kind = W.VSS_TYPES[code]
        member, etype, stype = CNAME[name]
        o.append('  { /* message %d: %s, %s */' % (i + 1, name, 'interop' if mode == 0 else 'static'))
        o.append('    Avtp_Vss_SetAddrMode(pdu, %d); Avtp_Vss_SetDatatype(pdu, 0x%02x);' % (mode, code))
        o.append('    uint8_t ref[%d]; memcpy(ref, obj, %d);' % (M, M))
        o.append('    VssPath_t path; memset(&path, 0, sizeof path);')
        if mode == W.VSS_ADDR_INTEROP:
            o.append('    path.vss_interop_path.path_length = %d; path.vss_interop_path.path = (char *)vp_obj_from(in.path%s, %d);' % (plen, tag, plen))
            o.append('    ref[%d] = %d; ref[%d] = %d;' % (H, plen >> 8, H + 1, plen & 255))
            if plen:
                o.append('    memcpy(ref + %d, in.path%s, %d);' % (H + 2, tag, plen))
            o.append('    unsigned pl = %du;' % (2 + plen))
        else:
            o.append('    path.vss_static_id_path = in.sid%s; ref_be(ref + %d, in.sid%s, 4); unsigned pl = 4u;' % (tag, H, tag))
        o.append('    Avtp_Vss_SetVssPath(pdu, &path);')
        o.append('    unsigned o_ = %du + pl;' % H)
        if kind == 'scalar':
            o.append('    VssData_t val; memset(&val, 0, sizeof val); memcpy(&val.%s, in.src%s, %d);' % (member, tag, size))
            o.append('    Avtp_Vss_SetVssData(pdu, &val);')
            o.append('    ref_be(ref + o_, host_elem(in.src%s, 0, %d), %d);' % (tag, size, size))
        else:
            o.append('    %s sv; sv.data_length = %d; sv.data = (void *)vp_obj_from(in.src%s, %d); %s *slot = &sv;' % (stype, dlen, tag, dlen, stype))
            o.append('    Avtp_Vss_SetVssData(pdu, (VssData_t *)&slot);')
            o.append('    ref[o_] = %d; ref[o_ + 1] = %d;' % (dlen >> 8, dlen & 255))
            if kind == 'bytes':
                if dlen:
                    o.append('    memcpy(ref + o_ + 2, in.src%s, %d);' % (tag, dlen))
            else:
                n = dlen // size
                if n:
                    o.append('    for (unsigned e = 0; e < %d; e++) ref_be(ref + o_ + 2 + e * %du, host_elem(in.src%s, e, %d), %d);' % (n, size, tag, size, size))
        o.append('    VP_ASSERT(vp_bytes_eq(obj, ref, %d), "C07 message %d encoded into a re-used buffer equals the reference encoding on top of the previous bytes (no state carried between calls)");' % (M, i + 1))
        o.append('  }')
    o.append('  VP_REACH("c07 sequence end");')
    o.append('}')
    return '\n'.join(o) + '\n', M



def c08_big(code, mode, plen, count):
    """lean decode query for large values: reference-encoded message (exact extent), one decode into an
    exact-extent destination, no length-query phase and no library encode (those are covered at small sizes)"""
    name, size, kind = W.VSS_TYPES[code]
    member, etype, stype = CNAME[name]
    dlen = size * count
    pl = (2 + plen) if mode == W.VSS_ADDR_INTEROP else 4
    M = H + pl + 2 + dlen
    o = [PRELUDE]
    o.append('typedef struct { uint8_t hdr[%d]; uint8_t path[%d]; uint32_t sid; uint8_t src[%d]; uint16_t junk; } vp_in_t;' % (H, max(plen, 1), max(dlen, 8)))
    o.append('void harness(void) {')
    o.append('  VP_INPUT(vp_in_t, in);')
    o.append('  uint8_t ref[%d]; memcpy(ref, in.hdr, %d);' % (M, H))
    o += _set_header('ref', mode, '0x%02x' % code)
    o += _ref_path(mode, plen, '%du' % plen, concrete=plen)
    o += _ref_value(code, dlen, '%du' % dlen, conc=dlen)
    o.append('  uint8_t *obj = vp_pdu_from(ref, %d); Avtp_Vss_t *pdu = (Avtp_Vss_t *)obj;' % M)
    o.append('  %s dv; %s *oslot = &dv; dv.data_length = in.junk; uint8_t *dest = vp_obj(%d); dv.data = (void *)dest;' % (stype, stype, dlen))
    o.append('  Avtp_Vss_GetVssData(pdu, (VssData_t *)&oslot);')
    o.append('  VP_ASSERT(dv.data_length == %d, "C08 %s decode of a large value reports the full value length in bytes");' % (dlen, name))
    o.append('  VP_ASSERT(vp_bytes_eq(dest, in.src, %d), "C08 %s decode of a large value returns every element bit for bit");' % (dlen, name))
    o.append('  VP_REACH("c08 big end");')
    o.append('}')
    return '\n'.join(o) + '\n', M



def c08_sequence(code, modes, plens, count):
    """receive-buffer re-use: several well-formed messages (same header quadlet, different paths) are placed
    one after the other at the SAME address and decoded; every decode must return that message's own
    path size, path and value (decoding depends on the current bytes only)"""
    name, size, kind = W.VSS_TYPES[code]
    member, etype, stype = CNAME[name]
    dlen = size * count if kind != 'scalar' else size
    pls = [(2 + p) if m == W.VSS_ADDR_INTEROP else 4 for m, p in zip(modes, plens)]
    vl = size if kind == 'scalar' else 2 + dlen
    M = H + max(pls) + vl
    n = len(plens)
    o = [PRELUDE]
    o.append('typedef struct { uint8_t hdr[%d]; uint8_t path[%d][%d]; uint32_t sid[%d]; uint8_t src[%d][%d]; uint8_t tail[%d]; } vp_in_t;'
             % (H, n, max(max(plens), 1), n, n, max(dlen, 8), M))
    o.append('void harness(void) {')
    o.append('  VP_INPUT(vp_in_t, in);')
    o.append('  uint8_t *obj = vp_pdu_from(in.tail, %d); Avtp_Vss_t *pdu = (Avtp_Vss_t *)obj;' % M)
    for i, (mode, plen) in enumerate(zip(modes, plens)):
        o.append('  { /* message %d */' % (i + 1))
        o.append('    uint8_t ref[%d]; memcpy(ref, obj, %d); memcpy(ref, in.hdr, %d);' % (M, M, H))
        o += ['  ' + x for x in _set_header('ref', mode, '0x%02x' % code)]
        if mode == W.VSS_ADDR_INTEROP:
            o.append('    ref[%d] = %d; ref[%d] = %d;' % (H, plen >> 8, H + 1, plen & 255))
            if plen:
                o.append('    memcpy(ref + %d, in.path[%d], %d);' % (H + 2, i, plen))
            o.append('    unsigned pl = %du;' % (2 + plen))
        else:
            o.append('    ref_be(ref + %d, in.sid[%d], 4); unsigned pl = 4u;' % (H, i))
        o.append('    unsigned o_ = %du + pl;' % H)
        if kind == 'scalar':
            o.append('    ref_be(ref + o_, host_elem(in.src[%d], 0, %d), %d);' % (i, size, size))
        else:
            o.append('    ref[o_] = %d; ref[o_ + 1] = %d;' % (dlen >> 8, dlen & 255))
            if kind == 'bytes':
                if dlen:
                    o.append('    memcpy(ref + o_ + 2, in.src[%d], %d);' % (i, dlen))
            else:
                for e in range(dlen // size):
                    o.append('    ref_be(ref + o_ + 2 + %d, host_elem(in.src[%d], %d, %d), %d);' % (e * size, i, e, size, size))
        o.append('    memcpy(obj, ref, %d);      /* the next datagram arrives in the same receive buffer */' % M)
        o.append('    VP_ASSERT(Avtp_Vss_CalcVssPathLength(pdu) == pl, "C08 message %d in a re-used buffer: reported on-wire path size is this message\'s");' % (i + 1))
        o.append('    VssPath_t pout; memset(&pout, 0, sizeof pout);')
        if mode == W.VSS_ADDR_INTEROP:
            o.append('    uint8_t *pdst = vp_obj(%d); pout.vss_interop_path.path = (char *)pdst; Avtp_Vss_GetVssPath(pdu, &pout);' % max(plen, 1))
            o.append('    VP_ASSERT(pout.vss_interop_path.path_length == %d%s, "C08 message %d in a re-used buffer: decoded path equals this message\'s");'
                     % (plen, (' && vp_bytes_eq(pdst, in.path[%d], %d)' % (i, plen)) if plen else '', i + 1))
        else:
            o.append('    Avtp_Vss_GetVssPath(pdu, &pout);')
            o.append('    VP_ASSERT(pout.vss_static_id_path == in.sid[%d], "C08 message %d in a re-used buffer: decoded static id equals this message\'s");' % (i, i + 1))
        if kind == 'scalar':
            o.append('    VssData_t out; memset(&out, 0, sizeof out); Avtp_Vss_GetVssData(pdu, &out);')
            o.append('    VP_ASSERT(vp_bytes_eq((const uint8_t *)&out.%s, in.src[%d], %d), "C08 message %d in a re-used buffer: decoded value equals this message\'s");' % (member, i, size, i + 1))
        else:
            o.append('    %s dv; %s *oslot = &dv; dv.data_length = 0; uint8_t *dest = vp_obj(%d); dv.data = (void *)dest;' % (stype, stype, max(dlen, 1)))
            o.append('    Avtp_Vss_GetVssData(pdu, (VssData_t *)&oslot);')
            o.append('    VP_ASSERT(dv.data_length == %d%s, "C08 message %d in a re-used buffer: decoded value equals this message\'s");'
                     % (dlen, (' && vp_bytes_eq(dest, in.src[%d], %d)' % (i, dlen)) if dlen else '', i + 1))
        o.append('  }')
    o.append('  VP_REACH("c08 sequence end");')
    o.append('}')
    return '\n'.join(o) + '\n', M
