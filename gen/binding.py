"""
Binds oracle formats/fields to the names the repository publishes, by convention, from
/repo's CURRENT headers (gcc -E -P output), regenerated on every run.

  enumerator  AVTP_<FMT>_FIELD_<NAME>   <->  oracle field <name>
  accessor    Avtp_<Fmt>_Get<Name> / Set<Name>

A public name the oracle does not know is not an alarm: it is returned in `uncovered`.
A binding that cannot be established at all raises BindingError (-> INCONCLUSIVE, exit 2).
"""
import os
import re
import subprocess
import sys

sys.path.insert(0, os.path.join(os.path.dirname(os.path.abspath(__file__)), '..'))
from spec import wire_spec as W   # noqa: E402

REPO = os.environ.get('VP_REPO', '/repo')


class BindingError(Exception):
    pass


# format -> (header, [sources], C type, function prefix, enumerator prefix, length macro)
TABLE = {
    'common':       ('avtp/CommonHeader.h', ['src/avtp/CommonHeader.c'], 'Avtp_CommonHeader_t', 'Avtp_CommonHeader', 'AVTP_COMMON_HEADER_FIELD', 'AVTP_COMMON_HEADER_LEN'),
    'udp':          ('avtp/Udp.h', ['src/avtp/Udp.c'], 'Avtp_Udp_t', 'Avtp_Udp', 'AVTP_UDP_FIELD', 'AVTP_UDP_HEADER_LEN'),
    'aaf':          ('avtp/aaf/Aaf.h', ['src/avtp/aaf/Aaf.c'], 'Avtp_Aaf_t', 'Avtp_Aaf', 'AVTP_AAF_FIELD', 'AVTP_AAF_HEADER_LEN'),
    'pcm':          ('avtp/aaf/Pcm.h', ['src/avtp/aaf/Pcm.c'], 'Avtp_Pcm_t', 'Avtp_Pcm', 'AVTP_PCM_FIELD', 'AVTP_PCM_HEADER_LEN'),
    'cvf':          ('avtp/cvf/Cvf.h', ['src/avtp/cvf/Cvf.c'], 'Avtp_Cvf_t', 'Avtp_Cvf', 'AVTP_CVF_FIELD', 'AVTP_CVF_HEADER_LEN'),
    'h264':         ('avtp/cvf/H264.h', ['src/avtp/cvf/H264.c'], 'Avtp_H264_t', 'Avtp_H264', 'AVTP_H264_FIELD', None),
    'mjpeg':        ('avtp/cvf/Mjpeg.h', ['src/avtp/cvf/Mjpeg.c'], 'Avtp_Mjpeg_t', 'Avtp_Mjpeg', 'AVTP_MJPEG_FIELD', 'AVTP_MJPEG_HEADER_LEN'),
    'jpeg2000':     ('avtp/cvf/Jpeg2000.h', ['src/avtp/cvf/Jpeg2000.c'], 'Avtp_Jpeg2000_t', 'Avtp_Jpeg2000', 'AVTP_JPEG2000_FIELD', 'AVTP_JPEG2000_HEADER_LEN'),
    'crf':          ('avtp/Crf.h', ['src/avtp/Crf.c'], 'Avtp_Crf_t', 'Avtp_Crf', 'AVTP_CRF_FIELD', 'AVTP_CRF_HEADER_LEN'),
    'rvf':          ('avtp/Rvf.h', ['src/avtp/Rvf.c'], 'Avtp_Rvf_t', 'Avtp_Rvf', 'AVTP_RVF_FIELD', 'AVTP_RVF_HEADER_LEN'),
    'tscf':         ('avtp/acf/Tscf.h', ['src/avtp/acf/Tscf.c'], 'Avtp_Tscf_t', 'Avtp_Tscf', 'AVTP_TSCF_FIELD', 'AVTP_TSCF_HEADER_LEN'),
    'ntscf':        ('avtp/acf/Ntscf.h', ['src/avtp/acf/Ntscf.c'], 'Avtp_Ntscf_t', 'Avtp_Ntscf', 'AVTP_NTSCF_FIELD', 'AVTP_NTSCF_HEADER_LEN'),
    'acf_common':   ('avtp/acf/AcfCommon.h', ['src/avtp/acf/AcfCommon.c'], 'Avtp_AcfCommon_t', 'Avtp_AcfCommon', 'AVTP_ACF_FIELD', 'AVTP_ACF_COMMON_HEADER_LEN'),
    'flexray':      ('avtp/acf/FlexRay.h', ['src/avtp/acf/FlexRay.c'], 'Avtp_FlexRay_t', 'Avtp_FlexRay', 'AVTP_FLEXRAY_FIELD', 'AVTP_FLEXRAY_HEADER_LEN'),
    'can':          ('avtp/acf/Can.h', ['src/avtp/acf/Can.c'], 'Avtp_Can_t', 'Avtp_Can', 'AVTP_CAN_FIELD', 'AVTP_CAN_HEADER_LEN'),
    'can_brief':    ('avtp/acf/CanBrief.h', ['src/avtp/acf/CanBrief.c'], 'Avtp_CanBrief_t', 'Avtp_CanBrief', 'AVTP_CAN_BRIEF_FIELD', 'AVTP_CAN_BRIEF_HEADER_LEN'),
    'lin':          ('avtp/acf/Lin.h', ['src/avtp/acf/Lin.c'], 'Avtp_Lin_t', 'Avtp_Lin', 'AVTP_LIN_FIELD', 'AVTP_LIN_HEADER_LEN'),
    'most':         ('avtp/acf/Most.h', ['src/avtp/acf/Most.c'], 'Avtp_Most_t', 'Avtp_Most', 'AVTP_MOST_FIELD', 'AVTP_MOST_HEADER_LEN'),
    'gpc':          ('avtp/acf/Gpc.h', ['src/avtp/acf/Gpc.c'], 'Avtp_Gpc_t', 'Avtp_Gpc', 'AVTP_GPC_FIELD', 'AVTP_GPC_HEADER_LEN'),
    'sensor':       ('avtp/acf/Sensor.h', ['src/avtp/acf/Sensor.c'], 'Avtp_Sensor_t', 'Avtp_Sensor', 'AVTP_SENSOR_FIELD', 'AVTP_SENSOR_HEADER_LEN'),
    'sensor_brief': ('avtp/acf/SensorBrief.h', ['src/avtp/acf/SensorBrief.c'], 'Avtp_SensorBrief_t', 'Avtp_SensorBrief', 'AVTP_SENSOR_BRIEF_FIELD', None),
    'vss':          ('avtp/acf/custom/Vss.h', ['src/avtp/acf/custom/Vss.c'], 'Avtp_Vss_t', 'Avtp_Vss', 'AVTP_VSS_FIELD', 'AVTP_VSS_FIXED_HEADER_LEN'),
    'vss_brief':    ('avtp/acf/custom/VssBrief.h', ['src/avtp/acf/custom/VssBrief.c'], 'Avtp_VssBrief_t', 'Avtp_VssBrief', 'AVTP_VSS_BRIEF_FIELD', 'AVTP_VSS_BRIEF_HEADER_LEN'),
}
# candidates tried in order when the macro is None / renamed (a renamed macro is not an alarm)
LEN_MACRO_CANDIDATES = {
    'h264': ['AVTP_H264_HEADER_LEN', 'AVTP_H246_HEADER_LEN'],
    'sensor_brief': ['AVTP_SENSOR_BRIEF_HEADER_LEN'],
}
UTILS = 'src/avtp/Utils.c'

# oracle field name -> enumerator suffix, where it is not simply upper(name)
ENUM_SUFFIX = {('h264', 'h264_timestamp'): 'TIMESTAMP'}
# accessor stem (lower case, no underscores) -> oracle field, where irregular
ACCESSOR_ALIAS = {('vss', 'opcode'): 'vss_op', ('vss', 'datatype'): 'vss_datatype'}
# public functions that are not per-field accessors
NOT_FIELD_ACCESSOR = re.compile(
    r'_(GetField|SetField|Init|GetPayload|SetPayload|GetVssPath|SetVssPath|GetVssData|SetVssData|'
    r'GetVSSDataStringArrayLength|GetCanPayloadLength)$')

# legacy API: format -> (get, set, init or None, pdu C type for the legacy prototypes)
LEGACY = {
    'common': ('avtp_pdu_get', 'avtp_pdu_set', None),
    'pcm': ('avtp_aaf_pdu_get', 'avtp_aaf_pdu_set', 'avtp_aaf_pdu_init'),
    'crf': ('avtp_crf_pdu_get', 'avtp_crf_pdu_set', 'avtp_crf_pdu_init'),
    'cvf': ('avtp_cvf_pdu_get', 'avtp_cvf_pdu_set', 'avtp_cvf_pdu_init'),
    'rvf': ('avtp_rvf_pdu_get', 'avtp_rvf_pdu_set', 'avtp_rvf_pdu_init'),
}

_pp_cache = {}


def preprocess(header):
    if header in _pp_cache:
        return _pp_cache[header]
    p = os.path.join(REPO, 'include', header)
    if not os.path.exists(p):
        raise BindingError('header missing: ' + header)
    r = subprocess.run(['gcc', '-E', '-P', '-I' + os.path.join(REPO, 'include'), p],
                       stdout=subprocess.PIPE, stderr=subprocess.PIPE)
    if r.returncode != 0:
        raise BindingError('cannot preprocess %s: %s' % (header, r.stderr.decode()[-400:]))
    _pp_cache[header] = r.stdout.decode(errors='replace')
    return _pp_cache[header]


def macros(header):
    p = os.path.join(REPO, 'include', header)
    r = subprocess.run(['gcc', '-E', '-dM', '-I' + os.path.join(REPO, 'include'), p],
                       stdout=subprocess.PIPE, stderr=subprocess.PIPE)
    out = {}
    for line in r.stdout.decode(errors='replace').splitlines():
        m = re.match(r'#define (\w+)(?:\s+(.*))?$', line)
        if m:
            out[m.group(1)] = (m.group(2) or '').strip()
    return out


def enums(text):
    """[(tag, typedefname, [enumerator names in order])]"""
    out = []
    for m in re.finditer(r'enum\s*(\w*)\s*\{([^}]*)\}\s*(\w*)\s*;', text):
        names = [x.strip().split('=')[0].strip() for x in m.group(2).split(',') if x.strip()]
        out.append((m.group(1), m.group(3), names))
    return out


def prototypes(text):
    """{function name: (return type text, params text)}"""
    out = {}
    for m in re.finditer(r'([A-Za-z_][\w\s\*]*?)\b(\w+)\s*\(([^;{}()]*)\)\s*;', text):
        ret, name, params = m.group(1).strip(), m.group(2), m.group(3).strip()
        if ret and not ret.startswith('typedef') and not ret.startswith('return'):
            out[name] = (ret, params)
    return out


def norm(s):
    return s.replace('_', '').lower()


class FormatBinding:
    pass


def bind(fmt):
    hdr, srcs, ctype, fn, enum_prefix, lenmacro = TABLE[fmt]
    spec = W.FORMATS[fmt]
    text = preprocess(hdr)
    mac = macros(hdr)
    b = FormatBinding()
    b.fmt, b.header, b.sources, b.ctype, b.fn = fmt, hdr, list(srcs) + [UTILS], ctype, fn
    b.spec_len = spec['len']
    b.uncovered = []
    if not re.search(r'\b%s\b' % re.escape(ctype), text):
        raise BindingError('type %s not found in %s' % (ctype, hdr))
    # length macro
    cands = [lenmacro] if lenmacro else []
    cands += LEN_MACRO_CANDIDATES.get(fmt, [])
    b.lenmacro = next((c for c in cands if c in mac), None)
    # field enum: the enum that holds enumerators with our prefix
    best = None
    for tag, td, names in enums(text):
        n = sum(1 for x in names if x.startswith(enum_prefix + '_'))
        if n and (best is None or n > best[0]):
            best = (n, tag, td, names)
    if best is None:
        raise BindingError('no field enumeration with prefix %s in %s' % (enum_prefix, hdr))
    _, b.enum_tag, b.enum_type, names = best
    b.enumerators = names
    b.max_enumerator = names[-1] if names[-1].endswith('_MAX') else None
    # fields
    protos = prototypes(text)
    b.protos = protos
    b.fields = []
    used = set()
    for f in spec['fields']:
        suffix = ENUM_SUFFIX.get((fmt, f['name']), f['name'].upper())
        en = enum_prefix + '_' + suffix
        if en not in names:
            en = None
        else:
            used.add(en)
        stem = norm(suffix)
        getter = setter = None
        for pn in protos:
            m = re.match(re.escape(fn) + r'_([GgSs]et)(\w+)$', pn)
            if not m or NOT_FIELD_ACCESSOR.search(pn):
                continue
            pst = norm(m.group(2))
            target = ACCESSOR_ALIAS.get((fmt, pst))
            if (target == f['name']) or (target is None and pst == stem):
                if m.group(1).lower() == 'get':
                    getter = pn
                else:
                    setter = pn
        if en is None and getter is None and setter is None:
            continue                      # e.g. reserved range the repository does not name
        b.fields.append(dict(name=f['name'], off=f['off'], width=f['width'], kind=f['kind'],
                             enum=en, getter=getter, setter=setter))
    bound_fns = {x for f in b.fields for x in (f['getter'], f['setter']) if x}
    for en in names:
        if en not in used and en != b.max_enumerator:
            b.uncovered.append(en)
    for pn in protos:
        if re.match(re.escape(fn) + r'_[GgSs]et\w+$', pn) and pn not in bound_fns \
                and not NOT_FIELD_ACCESSOR.search(pn):
            b.uncovered.append(pn)
    b.getfield = fn + '_GetField' if fn + '_GetField' in protos else None
    b.setfield = fn + '_SetField' if fn + '_SetField' in protos else None
    b.init = fn + '_Init' if fn + '_Init' in protos else None
    b.getpayload = fn + '_GetPayload' if fn + '_GetPayload' in protos else None
    if b.getfield is None or b.setfield is None:
        raise BindingError('generic accessors of %s not found' % fmt)
    b.legacy = None
    if fmt in LEGACY:
        g, s, i = LEGACY[fmt]
        b.legacy = dict(get=g if g in protos else None, set=s if s in protos else None,
                        init=i if (i and i in protos) else None)
    b.macros = mac
    return b


def all_formats():
    return list(TABLE.keys())


if __name__ == '__main__':
    for k in all_formats():
        b = bind(k)
        print(k, b.lenmacro, b.enum_type, len(b.fields), 'fields;',
              sum(1 for f in b.fields if f['getter']), 'getters',
              sum(1 for f in b.fields if f['setter']), 'setters', 'init=', b.init,
              'uncovered=', b.uncovered)
