"""C06: ACF-CAN message builders (full and brief)."""
from spec import wire_spec as W


def _ref(fmt, H, lenexpr):
    """C statements building the reference message in `ref` from snapshot, payload, id, variant"""
    f = lambda n: W.field(fmt, n)
    s = []
    s.append('  unsigned pad = (4u - (%s %% 4u)) %% 4u;' % lenexpr)
    s.append('  unsigned total = %d + %s + pad;' % (H, lenexpr))
    s.append('  spec_put(ref, %d, %d, total / 4u);' % (f('acf_msg_length')['off'], f('acf_msg_length')['width']))
    s.append('  spec_put(ref, %d, %d, pad);' % (f('pad')['off'], f('pad')['width']))
    s.append('  spec_put(ref, %d, %d, in.id > 0x7FFu ? 1u : 0u);' % (f('eff')['off'], f('eff')['width']))
    s.append('  spec_put(ref, %d, %d, in.variant & 1u);' % (f('fdf')['off'], f('fdf')['width']))
    s.append('  spec_put(ref, %d, %d, in.id);' % (f('can_identifier')['off'], f('can_identifier')['width']))
    return s


def c06_functional(fmt, lmax):
    """(F): symbolic length 0..lmax on a maximum-size object with guard bytes"""
    full = fmt == 'can'
    H = W.FORMATS[fmt]['len']
    N = H + lmax + 3 + 8
    hdr = 'avtp/acf/Can.h' if full else 'avtp/acf/CanBrief.h'
    T = 'Avtp_Can_t' if full else 'Avtp_CanBrief_t'
    o = ['#include "vp.h"', '#include "%s"' % hdr]
    o.append('typedef struct { uint8_t mem[%d]; uint8_t pay[%d]; uint16_t len; uint32_t id; uint8_t variant; } vp_in_t;' % (N, max(lmax, 1)))
    o.append('void harness(void) {')
    o.append('  VP_INPUT(vp_in_t, in);')
    o.append('  VP_ASSUME(in.len <= %d);' % lmax)
    o.append('  uint8_t *obj = vp_pdu_from(in.mem, %d); uint8_t *pay = vp_obj_from(in.pay, %d);' % (N, max(lmax, 1)))
    o.append('  static uint8_t ref[%d]; memcpy(ref, in.mem, %d);' % (N, N))
    o += _ref(fmt, H, 'in.len')
    o.append('  for (unsigned i = 0; i < %d; i++) { if (i < in.len) ref[%d + i] = in.pay[i]; }' % (lmax, H))
    o.append('  for (unsigned i = 0; i < 3; i++) { if (i < pad) ref[%d + in.len + i] = 0; }' % H)
    o.append('  %s *pdu = (%s *)obj;' % (T, T))
    if full:
        o.append('  Avtp_Can_CreateAcfMessage(pdu, in.id, pay, in.len, (Avtp_CanVariant_t)(in.variant & 1u));')
        o.append('  VP_ASSERT(vp_bytes_eq(obj, ref, %d), "C06 can CreateAcfMessage yields the reference message: payload verbatim, zero pad, length/pad/eff/fdf/identifier set, every other header bit and every byte beyond the padded message unchanged");' % N)
        o.append('  if (in.len <= 64) VP_ASSERT(Avtp_Can_GetCanPayloadLength(pdu) == in.len, "C06 can GetCanPayloadLength returns the original payload length");')
        o.append('  VP_ASSERT(Avtp_Can_GetPayload(pdu) == obj + %d, "C06 can GetPayload is the address right after the header");' % H)
        # composition of the separate steps
        o.append('  uint8_t *obj2 = vp_pdu_from(in.mem, %d); Avtp_Can_t *p2 = (Avtp_Can_t *)obj2;' % N)
        o.append('  Avtp_Can_SetPayload(p2, pay, in.len);')
        o.append('  Avtp_Can_SetEff(p2, in.id > 0x7FFu ? 1 : 0); Avtp_Can_SetCanIdentifier(p2, in.id); Avtp_Can_SetFdf(p2, in.variant & 1u);')
        o.append('  Avtp_Can_Finalize(p2, in.len);')
        o.append('  VP_ASSERT(vp_bytes_eq(obj2, ref, %d), "C06 can SetPayload + field setters + Finalize compose to the same message as CreateAcfMessage");' % N)
    else:
        o.append('  int rc = Avtp_CanBrief_SetPayload(pdu, in.id, pay, in.len, (Avtp_CanVariant_t)(in.variant & 1u));')
        o.append('  VP_ASSERT(vp_bytes_eq(obj, ref, %d), "C06 can_brief SetPayload yields the reference message: payload verbatim, zero pad, length/pad/eff/fdf/identifier set, everything else unchanged");' % N)
        o.append('  VP_ASSERT(rc == (int)total, "C06 can_brief builder returns the padded byte length");')
        o.append('  rc = Avtp_CanBrief_Finalize(pdu, in.len);')
        o.append('  VP_ASSERT(rc == (int)total && vp_bytes_eq(obj, ref, %d), "C06 can_brief Finalize on a built message is idempotent and returns the padded byte length");' % N)
    o.append('  VP_ASSERT(vp_bytes_eq(pay, in.pay, %d), "C06 %s the payload source is not modified");' % (max(lmax, 1), fmt))
    o.append('  VP_REACH("c06 %s functional end");' % fmt)
    o.append('}')
    return '\n'.join(o) + '\n'


def c06_extent(fmt, length):
    """(E): concrete payload length, message object and payload source of EXACT extent"""
    full = fmt == 'can'
    H = W.FORMATS[fmt]['len']
    pad = (4 - length % 4) % 4
    N = H + length + pad
    hdr = 'avtp/acf/Can.h' if full else 'avtp/acf/CanBrief.h'
    T = 'Avtp_Can_t' if full else 'Avtp_CanBrief_t'
    o = ['#include "vp.h"', '#include "%s"' % hdr]
    o.append('typedef struct { uint8_t mem[%d]; uint8_t pay[%d]; uint32_t id; uint8_t variant; } vp_in_t;' % (N, max(length, 1)))
    o.append('void harness(void) {')
    o.append('  VP_INPUT(vp_in_t, in);')
    o.append('  uint8_t *obj = vp_pdu_from(in.mem, %d); uint8_t *pay = vp_obj_from(in.pay, %d);' % (N, length))
    o.append('  uint8_t ref[%d]; memcpy(ref, in.mem, %d);' % (N, N))
    o += _ref(fmt, H, '%du' % length)
    if length:
        o.append('  memcpy(ref + %d, in.pay, %d);' % (H, length))
    if pad:
        o.append('  memset(ref + %d, 0, %d);' % (H + length, pad))
    o.append('  %s *pdu = (%s *)obj;' % (T, T))
    if full:
        o.append('  Avtp_Can_CreateAcfMessage(pdu, in.id, pay, %d, (Avtp_CanVariant_t)(in.variant & 1u));' % length)
        o.append('  VP_ASSERT(vp_bytes_eq(obj, ref, %d), "C06 can CreateAcfMessage (exact-extent buffers) yields the reference message");' % N)
        if length <= 64:
            o.append('  VP_ASSERT(Avtp_Can_GetCanPayloadLength(pdu) == %d, "C06 can GetCanPayloadLength returns the original payload length");' % length)
    else:
        o.append('  int rc = Avtp_CanBrief_SetPayload(pdu, in.id, pay, %d, (Avtp_CanVariant_t)(in.variant & 1u));' % length)
        o.append('  VP_ASSERT(vp_bytes_eq(obj, ref, %d), "C06 can_brief SetPayload (exact-extent buffers) yields the reference message");' % N)
        o.append('  VP_ASSERT(rc == %d, "C06 can_brief builder returns the padded byte length");' % N)
    o.append('  VP_REACH("c06 %s extent end");' % fmt)
    o.append('}')
    return '\n'.join(o) + '\n'
