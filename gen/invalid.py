"""C11: invalid arguments are rejected without side effects."""
from . import binding as B


def c11(b):
    L = b.spec_len
    lg = b.legacy
    vt = 'uint32_t' if b.fmt == 'common' else 'uint64_t'
    o = ['#include "vp.h"', '#include <errno.h>', '#include "%s"' % b.header]
    o.append('typedef struct { uint8_t buf[%d]; uint64_t v; int fid; %s out0; uint8_t sel; uint8_t bystander[16]; } vp_in_t;' % (L, vt))
    o.append('void harness(void) {')
    o.append('  VP_INPUT(vp_in_t, in);')
    o.append('  %s *nul = (%s *)0; uint64_t got; int rc; %s val;' % (b.ctype, b.ctype, vt))
    o.append('  uint8_t *by = vp_obj_from(in.bystander, 16);')
    maxe = b.max_enumerator
    n = 0
    # (i) NULL pdu, any field id, any value
    o.append('  got = %s(nul, (%s)in.fid);' % (b.getfield, b.enum_type))
    o.append('  VP_ASSERT(got == 0, "C11 %s generic reader returns 0 for a null PDU (any field id)");' % b.fmt)
    o.append('  %s(nul, (%s)in.fid, in.v);' % (b.setfield, b.enum_type))
    n += 2
    for f in b.fields:
        if f['getter']:
            o.append('  got = (uint64_t)%s(nul);' % f['getter'])
            o.append('  VP_ASSERT(got == 0, "C11 %s getter %s returns 0 for a null PDU");' % (b.fmt, f['getter']))
            n += 1
        if f['setter']:
            o.append('  %s(nul, in.v);' % f['setter'])
            n += 1
    if b.init:
        o.append('  %s(nul);' % b.init)
        n += 1
    o.append('  VP_ASSERT(vp_bytes_eq(by, in.bystander, 16), "C11 %s null-PDU calls leave unrelated memory unchanged");' % b.fmt)
    o.append('  VP_REACH("c11 %s null pdu");' % b.fmt)
    # (ii) valid pdu, field id outside the enumeration (ALL other int values)
    if maxe:
        o.append('  { uint8_t *obj = vp_obj_from(in.buf, %d); %s *pdu = (%s *)obj;' % (L, b.ctype, b.ctype))
        o.append('    if (in.fid < 0 || in.fid >= (int)%s) {' % maxe)
        o.append('      got = %s(pdu, (%s)in.fid);' % (b.getfield, b.enum_type))
        o.append('      VP_ASSERT(got == 0, "C11 %s generic reader returns 0 for a field identifier outside the enumeration");' % b.fmt)
        o.append('      VP_ASSERT(vp_bytes_eq(obj, in.buf, %d), "C11 %s generic reader with an invalid identifier does not modify the buffer");' % (L, b.fmt))
        o.append('      %s(pdu, (%s)in.fid, in.v);' % (b.setfield, b.enum_type))
        o.append('      VP_ASSERT(vp_bytes_eq(obj, in.buf, %d), "C11 %s generic writer with a field identifier outside the enumeration writes nothing");' % (L, b.fmt))
        o.append('      VP_REACH("c11 %s invalid id");' % b.fmt)
        o.append('    }')
        o.append('    free(obj); }')
        n += 2
    # (iii) legacy wrappers: {NULL, valid} pdu x {NULL, valid} result x any field
    if lg and maxe:
        o.append('  if (in.fid >= 0) { uint8_t *obj = vp_obj_from(in.buf, %d);' % L)
        o.append('    void *p = (in.sel & 1) ? (void *)obj : (void *)0; %s *vp = (in.sel & 2) ? &val : (%s *)0;' % (vt, vt))
        o.append('    int bad_field = (in.fid < 0 || in.fid >= (int)%s);' % maxe)
        if lg['get']:
            o.append('    val = in.out0; rc = %s(p, (%s)in.fid, vp);' % (lg['get'], b.enum_type))
            o.append('    if (!p || !vp || bad_field) {')
            o.append('      VP_ASSERT(rc == -EINVAL, "C11 %s legacy get returns -EINVAL for a null PDU, null result or out-of-range field");' % b.fmt)
            o.append('      VP_ASSERT(val == in.out0, "C11 %s legacy get does not write the result location on error");' % b.fmt)
            o.append('      VP_REACH("c11 %s legacy get error");' % b.fmt)
            o.append('    } else { VP_ASSERT(rc == 0, "C11 %s legacy get returns success for valid arguments"); VP_REACH("c11 %s legacy get ok"); }' % (b.fmt, b.fmt))
            o.append('    VP_ASSERT(vp_bytes_eq(obj, in.buf, %d), "C11 %s legacy get never modifies the PDU");' % (L, b.fmt))
            n += 1
        if lg['set']:
            o.append('    rc = %s(p, (%s)in.fid, (%s)in.v);' % (lg['set'], b.enum_type, vt))
            o.append('    if (!p || bad_field) {')
            o.append('      VP_ASSERT(rc == -EINVAL, "C11 %s legacy set returns -EINVAL for a null PDU or out-of-range field");' % b.fmt)
            o.append('      VP_ASSERT(vp_bytes_eq(obj, in.buf, %d), "C11 %s legacy set writes nothing on error");' % (L, b.fmt))
            o.append('      VP_REACH("c11 %s legacy set error");' % b.fmt)
            o.append('    } else { VP_ASSERT(rc == 0, "C11 %s legacy set returns success for valid arguments"); }' % b.fmt)
            n += 1
        if lg['init']:
            arg = ', (uint8_t)in.v' if b.fmt == 'cvf' else ''
            o.append('    rc = %s((void *)0%s);' % (lg['init'], arg))
            o.append('    VP_ASSERT(rc == -EINVAL, "C11 %s legacy init returns -EINVAL for a null PDU");' % b.fmt)
            n += 1
        o.append('    VP_ASSERT(vp_bytes_eq(by, in.bystander, 16), "C11 %s legacy error paths leave unrelated memory unchanged");' % b.fmt)
        o.append('    free(obj); }')
    o.append('  VP_REACH("c11 %s end");' % b.fmt)
    o.append('}')
    return '\n'.join(o) + '\n', n
