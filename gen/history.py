"""C05: a PDU is a record of independent fields under any history of operations."""
from . import binding as B
from spec import wire_spec as W


def _c_bytes(bs):
    return '{ ' + ', '.join('0x%02x' % x for x in bs) + ' }'


def c05_history(b, k, ep_mode='symbolic', rot=0):
    """k symbolic steps over two buffers; each step: symbolic buffer, symbolic operation
    (init or set of a symbolic field through a symbolic entry point).  The step is a switch
    with one CONCRETE call per case.  Reference = byte image maintained by the oracle."""
    L = b.spec_len
    lg = b.legacy or {}
    vt = 'uint32_t' if b.fmt == 'common' else 'uint64_t'
    flds = [f for f in b.fields if f['enum']]
    o = ['#include "vp.h"', '#include "%s"' % b.header]
    o.append('typedef struct { uint8_t sel, ep; uint16_t op; uint64_t v; } vp_step_t;')
    o.append('typedef struct { uint8_t a[%d], b[%d]; vp_step_t st[%d]; } vp_in_t;' % (L, L, k))
    o.append('static const uint8_t canon[%d] = %s;' % (L, _c_bytes(W.canonical_image(b.fmt))))
    o.append('static void step(uint8_t *obj, uint8_t *ref, vp_step_t s) {')
    o.append('  %s *pdu = (%s *)obj;' % (b.ctype, b.ctype))
    o.append('  switch (s.op) {')
    for i, f in enumerate(flds):
        o.append('  case %d: /* %s */' % (i, f['name']))
        o.append('    spec_put(ref, %d, %d, s.v);' % (f['off'], f['width']))
        alts = ['%s(pdu, %s, s.v);' % (b.setfield, f['enum'])]
        if f['setter']:
            alts.append('%s(pdu, s.v);' % f['setter'])
        if lg.get('set'):
            # legacy common setter carries 32 bits: fields are <= 8 bits wide, same result mod 2^w
            alts.append('(void)%s((void *)pdu, %s, (%s)s.v);' % (lg['set'], f['enum'], vt))
        if ep_mode == 'rotate':
            o.append('    ' + alts[(i + rot) % len(alts)])
        elif len(alts) == 1:
            o.append('    ' + alts[0])
        else:
            o.append('    switch (s.ep %% %d) {' % len(alts))
            for j, a in enumerate(alts):
                o.append('    %s %s break;' % ('case %d:' % j if j < len(alts) - 1 else 'default:', a))
            o.append('    }')
        o.append('    break;')
    ninit = 0
    if b.init:
        o.append('  case %d: memcpy(ref, canon, %d); %s(pdu); break;' % (len(flds), L, b.init))
        ninit += 1
        if lg.get('init') and b.fmt != 'cvf':
            o.append('  case %d: memcpy(ref, canon, %d); (void)%s((void *)pdu); break;' % (len(flds) + 1, L, lg['init']))
            ninit += 1
    o.append('  default: break;')
    o.append('  }')
    o.append('}')
    nops = len(flds) + ninit
    o.append('void harness(void) {')
    o.append('  VP_INPUT(vp_in_t, in);')
    o.append('  uint8_t *A = vp_obj_from(in.a, %d), *Bb = vp_obj_from(in.b, %d);' % (L, L))
    o.append('  uint8_t ra[%d], rb[%d]; memcpy(ra, in.a, %d); memcpy(rb, in.b, %d);' % (L, L, L, L))
    o.append('  for (int i = 0; i < %d; i++) {' % k)
    o.append('    VP_ASSUME(in.st[i].op < %d);' % nops)
    o.append('    if (in.st[i].sel & 1) step(Bb, rb, in.st[i]); else step(A, ra, in.st[i]);')
    o.append('  }')
    o.append('  VP_ASSERT(vp_bytes_eq(A, ra, %d), "C05 %s buffer A equals the reference encoding of its operation history");' % (L, b.fmt))
    o.append('  VP_ASSERT(vp_bytes_eq(Bb, rb, %d), "C05 %s buffer B equals the reference encoding of its operation history (no cross-buffer state)");' % (L, b.fmt))
    o.append('  uint64_t g;')
    for f in flds:
        o.append('  g = %s((%s *)A, %s);' % (b.getfield, b.ctype, f['enum']))
        o.append('  VP_ASSERT(g == spec_get(ra, %d, %d), "C05 %s.%s reads as the last value written (or initial/initialised content) after the history");' % (f['off'], f['width'], b.fmt, f['name']))
    o.append('  VP_REACH("c05 %s history end");' % b.fmt)
    o.append('}')
    return '\n'.join(o) + '\n', nops


def c05_algebra(b):
    """commutation of writes to different fields, idempotence of a repeated write, and
    init-absorbs-everything, with SYMBOLIC field identifiers through the by-id writer."""
    L = b.spec_len
    o = ['#include "vp.h"', '#include "%s"' % b.header]
    o.append('typedef struct { uint8_t buf[%d]; uint8_t f, g; uint64_t v, w; } vp_in_t;' % L)
    o.append('void harness(void) {')
    o.append('  VP_INPUT(vp_in_t, in);')
    mx = b.max_enumerator
    o.append('  VP_ASSUME(in.f < %s); VP_ASSUME(in.g < %s); ' % (mx, mx))
    o.append('  uint8_t *x = vp_obj_from(in.buf, %d), *y = vp_obj_from(in.buf, %d), *z = vp_obj_from(in.buf, %d);' % (L, L, L))
    o.append('  %s *px = (%s *)x, *py = (%s *)y, *pz = (%s *)z;' % (b.ctype, b.ctype, b.ctype, b.ctype))
    if len([f for f in b.fields if f['enum']]) < 2:
        o.append('  VP_ASSUME(in.f == in.g);')
    o.append('  if (in.f != in.g) {')
    o.append('    %s(px, (%s)in.f, in.v); %s(px, (%s)in.g, in.w);' % (b.setfield, b.enum_type, b.setfield, b.enum_type))
    o.append('    %s(py, (%s)in.g, in.w); %s(py, (%s)in.f, in.v);' % (b.setfield, b.enum_type, b.setfield, b.enum_type))
    o.append('    VP_ASSERT(vp_bytes_eq(x, y, %d), "C05 %s writes to different fields commute");' % (L, b.fmt))
    if len([f for f in b.fields if f['enum']]) >= 2:
        o.append('    VP_REACH("c05 %s commute");' % b.fmt)
    o.append('  } else {')
    o.append('    %s(px, (%s)in.f, in.v); %s(px, (%s)in.f, in.v);' % (b.setfield, b.enum_type, b.setfield, b.enum_type))
    o.append('    %s(py, (%s)in.f, in.v);' % (b.setfield, b.enum_type))
    o.append('    VP_ASSERT(vp_bytes_eq(x, y, %d), "C05 %s repeating a write changes nothing");' % (L, b.fmt))
    o.append('    %s(pz, (%s)in.f, in.w); %s(pz, (%s)in.f, in.v);' % (b.setfield, b.enum_type, b.setfield, b.enum_type))
    o.append('    VP_ASSERT(vp_bytes_eq(z, y, %d), "C05 %s the last write to a field wins");' % (L, b.fmt))
    o.append('    VP_REACH("c05 %s idempotent");' % b.fmt)
    o.append('  }')
    o.append('}')
    return '\n'.join(o) + '\n'
