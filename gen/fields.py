"""
Harness generators for the per-format header properties C01 (reads), C02 (writes),
C03 (extent / sizes), C04 (initialisers).  Output is C source text for engine.core.Job.
"""
from . import binding as B
from spec import wire_spec as W

HDR = '#include "vp.h"\n#include "%s"\n'


def _c_bytes(bs):
    return '{ ' + ', '.join('0x%02x' % x for x in bs) + ' }'


def c01_reads(b, length=None):
    """every named field, generic + dedicated reader, all buffer contents, exact extent"""
    L = length or b.spec_len
    o = [HDR % b.header]
    o.append('typedef struct { uint8_t buf[%d]; } vp_in_t;' % L)
    o.append('void harness(void) {')
    o.append('  VP_INPUT(vp_in_t, in);')
    o.append('  uint8_t *obj = vp_pdu_from(in.buf, %d);' % L)
    o.append('  %s *pdu = (%s *)obj;' % (b.ctype, b.ctype))
    o.append('  uint64_t exp, got;')
    n = 0
    for f in b.fields:
        o.append('  exp = spec_get(in.buf, %d, %d);' % (f['off'], f['width']))
        if f['enum']:
            o.append('  got = %s(pdu, %s);' % (b.getfield, f['enum']))
            o.append('  VP_ASSERT(got == exp, "C01 %s.%s generic read returns exactly the wire bits [%d,+%d)");'
                     % (b.fmt, f['name'], f['off'], f['width']))
            n += 1
        if f['getter']:
            o.append('  got = (uint64_t)%s(pdu);' % f['getter'])
            o.append('  VP_ASSERT(got == exp, "C01 %s.%s dedicated getter %s returns the complete wire value");'
                     % (b.fmt, f['name'], f['getter']))
            n += 1
    o.append('  VP_ASSERT(vp_bytes_eq(obj, in.buf, %d), "C01 %s reads do not modify the buffer");' % (L, b.fmt))
    o.append('  VP_REACH("c01 %s end");' % b.fmt)
    o.append('}')
    return '\n'.join(o) + '\n', n


def c02_writes(b):
    """every named field, generic + dedicated writer, all prior contents x all 64-bit values"""
    L = b.spec_len
    o = [HDR % b.header]
    o.append('typedef struct { uint8_t buf[%d]; uint64_t v; } vp_in_t;' % L)
    o.append('void harness(void) {')
    o.append('  VP_INPUT(vp_in_t, in);')
    o.append('  uint8_t expect[%d]; uint8_t *obj; %s *pdu; uint64_t got;' % (L, b.ctype))
    n = 0
    for f in b.fields:
        w = f['width']
        for how in ('generic', 'dedicated'):
            if how == 'generic' and not f['enum']:
                continue
            if how == 'dedicated' and not f['setter']:
                continue
            o.append('  /* %s.%s via %s writer */' % (b.fmt, f['name'], how))
            o.append('  obj = vp_pdu_from(in.buf, %d); pdu = (%s *)obj;' % (L, b.ctype))
            o.append('  memcpy(expect, in.buf, %d); spec_put(expect, %d, %d, in.v);' % (L, f['off'], w))
            if how == 'generic':
                o.append('  %s(pdu, %s, in.v);' % (b.setfield, f['enum']))
                what = 'generic write'
            else:
                o.append('  %s(pdu, in.v);' % f['setter'])
                what = 'dedicated setter %s' % f['setter']
            o.append('  VP_ASSERT(vp_bytes_eq(obj, expect, %d), "C02 %s.%s %s stores v mod 2^%d in exactly bits [%d,+%d) and nothing else");'
                     % (L, b.fmt, f['name'], what, w, f['off'], w))
            if f['enum']:
                o.append('  got = %s(pdu, %s);' % (b.getfield, f['enum']))
                o.append('  VP_ASSERT(got == (in.v & spec_mask(%d)), "C02 %s.%s read after %s returns v mod 2^%d");'
                         % (w, b.fmt, f['name'], what, w))
            if f['getter']:
                o.append('  got = (uint64_t)%s(pdu);' % f['getter'])
                o.append('  VP_ASSERT(got == (in.v & spec_mask(%d)), "C02 %s.%s dedicated read after %s returns v mod 2^%d");'
                         % (w, b.fmt, f['name'], what, w))
            o.append('  free(obj);')
            n += 1
    o.append('  VP_REACH("c02 %s end");' % b.fmt)
    o.append('}')
    return '\n'.join(o) + '\n', n


def c03_extent(b):
    """published sizes == the standard's; every accessor + initialiser on an object of exactly
    the PUBLISHED size (sizeof the header type) stays inside it; payload accessor address"""
    L = b.spec_len
    o = [HDR % b.header, '#include <stddef.h>']
    o.append('typedef struct { uint8_t buf[%d]; uint64_t v; } vp_in_t;' % max(L, 64))
    o.append('void harness(void) {')
    o.append('  VP_INPUT(vp_in_t, in);')
    if b.lenmacro:
        o.append('  VP_ASSERT(%s == %d, "C03 %s published header length %s equals the wire format header size %d");'
                 % (b.lenmacro, L, b.fmt, b.lenmacro, L))
        o.append('  VP_ASSERT(%s %% 4 == 0, "C03 %s published header length is a whole number of quadlets");'
                 % (b.lenmacro, b.fmt))
    o.append('  VP_ASSERT(sizeof(%s) == %d, "C03 %s sizeof(%s) equals the wire format header size %d");'
             % (b.ctype, L, b.fmt, b.ctype, L))
    o.append('  VP_ASSERT(offsetof(%s, payload) == %d, "C03 %s payload member of %s starts right after the %d-byte header");'
             % (b.ctype, L, b.fmt, b.ctype, L))
    # object of exactly the published size
    o.append('  size_t pub = sizeof(%s);' % b.ctype)
    o.append('  VP_ASSUME(pub <= sizeof(in.buf));')
    o.append('  uint8_t *obj = vp_pdu_from(in.buf, pub);')
    o.append('  %s *pdu = (%s *)obj;' % (b.ctype, b.ctype))
    o.append('  uint64_t sink = 0;')
    n = 0
    for f in b.fields:
        if f['enum']:
            o.append('  sink ^= %s(pdu, %s);' % (b.getfield, f['enum']))
            o.append('  %s(pdu, %s, in.v);' % (b.setfield, f['enum']))
            n += 2
        if f['getter']:
            o.append('  sink ^= (uint64_t)%s(pdu);' % f['getter'])
            n += 1
        if f['setter']:
            o.append('  %s(pdu, in.v);' % f['setter'])
            n += 1
    if b.init:
        o.append('  %s(pdu);' % b.init)
        n += 1
    if b.legacy and b.legacy['init']:
        if b.fmt == 'cvf':
            o.append('  (void)%s(pdu, (uint8_t)in.v);' % b.legacy['init'])
        else:
            o.append('  (void)%s(pdu);' % b.legacy['init'])
        n += 1
    if b.getpayload:
        o.append('  VP_ASSERT(%s(pdu) == obj + %d, "C03 %s payload accessor returns the address right after the %d-byte header");'
                 % (b.getpayload, L, b.fmt, L))
        n += 1
    o.append('  VP_ASSERT(sink == sink, "sink");')
    o.append('  VP_REACH("c03 %s end");' % b.fmt)
    o.append('}')
    return '\n'.join(o) + '\n', n


def c04_init(b):
    """initialisers (current + legacy): canonical image whatever the buffer held, idempotent,
    nothing outside the header touched (exact-extent object of the oracle's length)"""
    L = b.spec_len
    img = W.canonical_image(b.fmt)
    o = [HDR % b.header]
    o.append('typedef struct { uint8_t buf[%d]; uint8_t fs, fs2; } vp_in_t;' % L)
    o.append('static const uint8_t canon[%d] = %s;' % (L, _c_bytes(img)))
    o.append('void harness(void) {')
    o.append('  VP_INPUT(vp_in_t, in);')
    o.append('  uint8_t *obj; %s *pdu; int rc;' % b.ctype)
    n = 0
    inits = []
    if b.init:
        inits.append(('current', b.init))
    if b.legacy and b.legacy['init']:
        inits.append(('legacy', b.legacy['init']))
    for kind, fnname in inits:
        o.append('  obj = vp_pdu_from(in.buf, %d); pdu = (%s *)obj;' % (L, b.ctype))
        if kind == 'legacy' and b.fmt == 'cvf':
            # avtp_cvf_pdu_init(pdu, subtype): canonical image + format_subtype
            fs = W.field('cvf', 'format_subtype')
            o.append('  uint8_t canon_fs[%d]; memcpy(canon_fs, canon, %d); spec_put(canon_fs, %d, %d, in.fs);'
                     % (L, L, fs['off'], fs['width']))
            call = 'rc = %s(pdu, in.fs);' % fnname
            ref = 'canon_fs'
        elif kind == 'legacy':
            call = 'rc = %s(pdu);' % fnname
            ref = 'canon'
        else:
            call = '%s(pdu); rc = 0;' % fnname
            ref = 'canon'
        o.append('  ' + call)
        o.append('  VP_ASSERT(rc == 0, "C04 %s %s returns success for a valid PDU");' % (b.fmt, fnname))
        o.append('  VP_ASSERT(vp_bytes_eq(obj, %s, %d), "C04 %s %s leaves the canonical header (zero except the mandated constants) whatever the buffer held");'
                 % (ref, L, b.fmt, fnname))
        o.append('  ' + call)
        o.append('  VP_ASSERT(vp_bytes_eq(obj, %s, %d), "C04 %s %s is idempotent");' % (ref, L, b.fmt, fnname))
        if kind == 'legacy' and b.fmt == 'cvf':
            # a different argument, twice: the result depends on the arguments of THIS call only
            o.append('  spec_put(canon_fs, %d, %d, in.fs2);' % (fs['off'], fs['width']))
            for _ in range(2):
                o.append('  rc = %s(pdu, in.fs2);' % fnname)
                o.append('  VP_ASSERT(rc == 0 && vp_bytes_eq(obj, canon_fs, %d), "C04 cvf %s after earlier calls with another subtype still yields the canonical header for its own argument");' % (L, fnname))
        o.append('  free(obj);')
        n += 1
    o.append('  VP_REACH("c04 %s end");' % b.fmt)
    o.append('}')
    return '\n'.join(o) + '\n', n


def descriptor_sweep(kind, offset=None):
    """generic reader/writer over a SYMBOLIC descriptor (quadlet<4, offset<=31, bits<=64):
    the library's own validity predicate.  `offset` concrete splits the query."""
    o = ['#include "vp.h"', '#include "avtp/Utils.h"']
    o.append('typedef struct { uint8_t buf[28]; uint8_t q, off, bits, idx; uint64_t v; } vp_in_t;')
    o.append('void harness(void) {')
    o.append('  VP_INPUT(vp_in_t, in);')
    o.append('  VP_ASSUME(in.q < 4); VP_ASSUME(in.off <= 31); VP_ASSUME(in.bits <= 64); VP_ASSUME(in.idx < 2);')
    if offset is not None:
        o.append('  VP_ASSUME(in.off == %d);' % offset)
    o.append('  Avtp_FieldDescriptor_t tab[2] = { {0, 0, 0}, {0, 0, 0} };')
    o.append('  tab[in.idx].quadlet = in.q; tab[in.idx].offset = in.off; tab[in.idx].bits = in.bits;')
    o.append('  uint8_t *obj = vp_pdu_from(in.buf, 28);')
    o.append('  unsigned bitoff = 32u * in.q + in.off;')
    if kind == 'get':
        o.append('  uint64_t got = Avtp_GetField(tab, 2, obj, in.idx);')
        o.append('  VP_ASSERT(got == spec_get(in.buf, bitoff, in.bits), "C01 generic reader with an arbitrary valid descriptor returns exactly the described bits");')
        o.append('  VP_ASSERT(vp_bytes_eq(obj, in.buf, 28), "C01 generic reader with an arbitrary valid descriptor does not modify the buffer");')
    else:
        o.append('  uint8_t expect[28]; memcpy(expect, in.buf, 28); spec_put(expect, bitoff, in.bits, in.v);')
        o.append('  Avtp_SetField(tab, 2, obj, in.idx, in.v);')
        o.append('  VP_ASSERT(vp_bytes_eq(obj, expect, 28), "C02 generic writer with an arbitrary valid descriptor stores v mod 2^bits in exactly the described bits");')
    o.append('  VP_REACH("descriptor sweep end");')
    o.append('}')
    return '\n'.join(o) + '\n'


def c16_readers(b):
    """every reader of a format (generic by-identifier with each identifier, dedicated getters, legacy get)
    is called from ONE wrapper whose function contract has an EMPTY assigns clause; CBMC's dynamic frame
    condition checking (goto-instrument --dfcc --enforce-contract) then proves that nothing reachable
    from a reader writes outside its own stack frame - not even the same bytes back into the PDU.
    Native replay: the PDU lies in a page that is mprotect()-ed read-only."""
    L = b.spec_len
    o = ['#include "vp.h"', '#include "%s"' % b.header]
    o.append('#ifndef __CPROVER__')
    o.append('#include <sys/mman.h>')
    o.append('#endif')
    o.append('typedef struct { uint8_t buf[%d]; } vp_in_t;' % L)
    o.append('uint64_t vp_readers(%s *pdu)' % b.ctype)
    o.append('#ifdef __CPROVER__')
    o.append('  __CPROVER_requires(1) __CPROVER_ensures(1) __CPROVER_assigns()')
    o.append('#endif')
    o.append('{')
    o.append('  uint64_t sink = 0;')
    n = 0
    for f in b.fields:
        if f['enum']:
            o.append('  sink ^= %s(pdu, %s);' % (b.getfield, f['enum']))
            n += 1
        if f['getter']:
            o.append('  sink ^= (uint64_t)%s(pdu);' % f['getter'])
            n += 1
    if b.legacy and b.legacy['get']:
        vt = 'uint32_t' if b.fmt == 'common' else 'uint64_t'
        o.append('  { %s val = 0;' % vt)
        for f in b.fields:
            if f['enum']:
                o.append('    (void)%s((void *)pdu, %s, &val); sink ^= val;' % (b.legacy['get'], f['enum']))
                n += 1
        o.append('  }')
    if b.getpayload:
        o.append('  sink ^= (uint64_t)(uintptr_t)%s(pdu);' % b.getpayload)
    if b.fmt == 'can':
        o.append('  sink ^= Avtp_Can_GetCanPayloadLength(pdu);')
    o.append('  return sink;')
    o.append('}')
    o.append('void harness(void) {')
    o.append('  VP_INPUT(vp_in_t, in);')
    o.append('#ifdef __CPROVER__')
    o.append('  uint8_t *obj = vp_pdu_from(in.buf, %d);' % L)
    o.append('#else')
    o.append('  uint8_t *page = mmap(0, 8192, PROT_READ | PROT_WRITE, MAP_PRIVATE | MAP_ANONYMOUS, -1, 0);')
    o.append('  uint8_t *obj = page + 4096 - %d; memcpy(obj, in.buf, %d);' % (L, L))
    o.append('  mprotect(page, 4096, PROT_READ);     /* a write by any reader now faults (ASan: SEGV on a WRITE access) */')
    o.append('#endif')
    o.append('  uint64_t s = vp_readers((%s *)obj);' % b.ctype)
    o.append('  VP_ASSERT(s == s, "sink");')
    o.append('  VP_REACH("c16 %s readers end");' % b.fmt)
    o.append('}')
    return '\n'.join(o) + '\n', n
