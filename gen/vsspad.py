"""C09: VSS finalisation (Avtp_Vss_Pad) and the dedicated length accessors."""
from spec import wire_spec as W

H = W.FORMATS['vss']['len']
FL = W.field('vss', 'acf_msg_length')
FP = W.field('vss', 'pad')


def c09_functional(nmax):
    N = nmax + 3 + 8
    o = ['#include "vp.h"', '#include "avtp/acf/custom/Vss.h"']
    o.append('typedef struct { uint8_t mem[%d]; uint16_t n; } vp_in_t;' % N)
    o.append('void harness(void) {')
    o.append('  VP_INPUT(vp_in_t, in);')
    o.append('  VP_ASSUME(in.n >= %d && in.n <= %d);' % (H, nmax))
    o.append('  uint8_t *obj = vp_pdu_from(in.mem, %d);' % N)
    o.append('  static uint8_t ref[%d]; memcpy(ref, in.mem, %d);' % (N, N))
    o.append('  unsigned pad = (4u - (in.n % 4u)) % 4u;')
    o.append('  spec_put(ref, %d, %d, (in.n + pad) / 4u); spec_put(ref, %d, %d, pad);' % (FL['off'], FL['width'], FP['off'], FP['width']))
    o.append('  for (unsigned i = 0; i < 3; i++) { if (i < pad) ref[in.n + i] = 0; }')
    o.append('  Avtp_Vss_Pad((Avtp_Vss_t *)obj, in.n);')
    o.append('  VP_ASSERT(vp_bytes_eq(obj, ref, %d), "C09 Avtp_Vss_Pad sets length=ceil(n/4), pad=(4-n%%4)%%4, zeroes exactly the pad bytes right after the message and changes nothing else");' % N)
    o.append('  VP_ASSERT(Avtp_Vss_GetAcfMsgLength((Avtp_Vss_t *)obj) == (in.n + 3u) / 4u, "C09 dedicated length getter returns ceil(n/4) after finalisation");')
    o.append('  VP_ASSERT(Avtp_Vss_GetPad((Avtp_Vss_t *)obj) == pad, "C09 pad getter returns the number of bytes added");')
    o.append('  VP_REACH("c09 functional end");')
    o.append('}')
    return '\n'.join(o) + '\n'


def c09_extent(n):
    pad = (4 - n % 4) % 4
    N = n + pad
    o = ['#include "vp.h"', '#include "avtp/acf/custom/Vss.h"']
    o.append('typedef struct { uint8_t mem[%d]; } vp_in_t;' % N)
    o.append('void harness(void) {')
    o.append('  VP_INPUT(vp_in_t, in);')
    o.append('  uint8_t *obj = vp_pdu_from(in.mem, %d);' % N)
    o.append('  uint8_t ref[%d]; memcpy(ref, in.mem, %d);' % (N, N))
    o.append('  spec_put(ref, %d, %d, %du); spec_put(ref, %d, %d, %du);' % (FL['off'], FL['width'], N // 4, FP['off'], FP['width'], pad))
    if pad:
        o.append('  memset(ref + %d, 0, %d);' % (n, pad))
    o.append('  Avtp_Vss_Pad((Avtp_Vss_t *)obj, %d);' % n)
    o.append('  VP_ASSERT(vp_bytes_eq(obj, ref, %d), "C09 Avtp_Vss_Pad on an exact-extent message (n + pad bytes) yields the reference and touches nothing outside");' % N)
    o.append('  VP_REACH("c09 extent end");')
    o.append('}')
    return '\n'.join(o) + '\n'


def c09_length_accessors():
    o = ['#include "vp.h"', '#include "avtp/acf/custom/Vss.h"']
    o.append('typedef struct { uint8_t mem[%d]; uint16_t v; } vp_in_t;' % H)
    o.append('void harness(void) {')
    o.append('  VP_INPUT(vp_in_t, in);')
    o.append('  VP_ASSUME(in.v < 512);')
    o.append('  uint8_t *obj = vp_pdu_from(in.mem, %d); Avtp_Vss_t *pdu = (Avtp_Vss_t *)obj;' % H)
    o.append('  uint8_t ref[%d]; memcpy(ref, in.mem, %d); spec_put(ref, %d, %d, in.v);' % (H, H, FL['off'], FL['width']))
    o.append('  Avtp_Vss_SetAcfMsgLength(pdu, in.v);')
    o.append('  VP_ASSERT(vp_bytes_eq(obj, ref, %d), "C09 dedicated length setter stores every 9-bit value");' % H)
    o.append('  VP_ASSERT(Avtp_Vss_GetAcfMsgLength(pdu) == in.v, "C09 dedicated length getter returns every 9-bit value");')
    o.append('  VP_ASSERT(Avtp_Vss_GetField(pdu, AVTP_VSS_FIELD_ACF_MSG_LENGTH) == in.v, "C09 generic and dedicated length accessors agree");')
    o.append('  VP_REACH("c09 accessors end");')
    o.append('}')
    return '\n'.join(o) + '\n'
