"""C12: legacy (deprecated) API == current API; legacy names designate the oracle's fields."""
from . import binding as B
from spec import wire_spec as W


def c12(b):
    L = b.spec_len
    lg = b.legacy
    vt = 'uint32_t' if b.fmt == 'common' else 'uint64_t'
    o = ['#include "vp.h"', '#include <errno.h>', '#include <stddef.h>', '#include "%s"' % b.header]
    o.append('typedef struct { uint8_t buf[%d]; uint64_t v; %s out0; uint8_t fs; } vp_in_t;' % (L, vt))
    o.append('void harness(void) {')
    o.append('  VP_INPUT(vp_in_t, in);')
    o.append('  uint8_t *a, *b; int rc; %s val; uint64_t cur;' % vt)
    n = 0
    for f in b.fields:
        if not f['enum']:
            continue
        tag = '%s.%s' % (b.fmt, f['name'])
        o.append('  /* %s */' % tag)
        o.append('  a = vp_obj_from(in.buf, %d); b = vp_obj_from(in.buf, %d);' % (L, L))
        if lg['get']:
            o.append('  val = in.out0; rc = %s((void*)a, %s, &val); cur = %s((%s*)b, %s);' % (lg['get'], f['enum'], b.getfield, b.ctype, f['enum']))
            o.append('  VP_ASSERT(rc == 0, "C12 %s legacy get returns success for valid arguments");' % tag)
            o.append('  VP_ASSERT((uint64_t)val == (%s)cur, "C12 %s legacy get returns the value of the current getter");' % (vt, tag))
            o.append('  VP_ASSERT((uint64_t)val == spec_get(in.buf, %d, %d), "C12 %s legacy get returns the oracle bits");' % (f['off'], f['width'], tag))
            o.append('  VP_ASSERT(vp_bytes_eq(a, in.buf, %d), "C12 %s legacy get does not modify the buffer");' % (L, tag))
        if lg['set']:
            o.append('  rc = %s((void*)a, %s, (%s)in.v); %s((%s*)b, %s, (%s)in.v);' % (lg['set'], f['enum'], vt, b.setfield, b.ctype, f['enum'], vt))
            o.append('  VP_ASSERT(rc == 0, "C12 %s legacy set returns success for valid arguments");' % tag)
            o.append('  VP_ASSERT(vp_bytes_eq(a, b, %d), "C12 %s legacy set leaves the same bytes as the current setter");' % (L, tag))
        o.append('  free(a); free(b);')
        n += 1
    # legacy names
    for name, fmt, fname in W.LEGACY_NAMES:
        if fmt != b.fmt or not lg['get']:
            continue
        f = W.field(fmt, fname)
        o.append('#ifdef %s' % name)
        o.append('  a = vp_obj_from(in.buf, %d); val = in.out0; rc = %s((void*)a, %s, &val);' % (L, lg['get'], name))
        o.append('  VP_ASSERT(rc == 0 && (uint64_t)val == spec_get(in.buf, %d, %d), "C12 legacy name %s designates %s.%s");' % (f['off'], f['width'], name, fmt, fname))
        if lg['set']:
            o.append('  { uint8_t ex[%d]; memcpy(ex, in.buf, %d); spec_put(ex, %d, %d, (%s)in.v); rc = %s((void*)a, %s, (%s)in.v);' % (L, L, f['off'], f['width'], vt, lg['set'], name, vt))
            o.append('    VP_ASSERT(rc == 0 && vp_bytes_eq(a, ex, %d), "C12 legacy name %s writes %s.%s"); }' % (L, name, fmt, fname))
        o.append('  free(a);')
        o.append('  VP_REACH("legacy name %s");' % name)
        o.append('#endif')
        n += 1
    if lg['init'] and b.init:
        o.append('  a = vp_obj_from(in.buf, %d); b = vp_obj_from(in.buf, %d);' % (L, L))
        if b.fmt == 'cvf':
            o.append('  rc = %s((void*)a, in.fs); %s((%s*)b); Avtp_Cvf_SetFormatSubtype((%s*)b, in.fs);' % (lg['init'], b.init, b.ctype, b.ctype))
        else:
            o.append('  rc = %s((void*)a); %s((%s*)b);' % (lg['init'], b.init, b.ctype))
        o.append('  VP_ASSERT(rc == 0 && vp_bytes_eq(a, b, %d), "C12 %s legacy init leaves the same bytes as the current initialiser");' % (L, b.fmt))
        o.append('  free(a); free(b);')
        n += 1
    # struct overlays
    if b.fmt == 'common':
        o.append('  VP_ASSERT(sizeof(struct avtp_common_pdu) == sizeof(Avtp_CommonHeader_t) && sizeof(struct avtp_common_pdu) == 4, "C12 struct avtp_common_pdu has the size of the common header (4)");')
        o.append('  VP_ASSERT(offsetof(struct avtp_common_pdu, pdu_specific) == 4, "C12 struct avtp_common_pdu payload at offset 4");')
        o.append('  VP_ASSERT(sizeof(struct avtp_stream_pdu) == 24 && offsetof(struct avtp_stream_pdu, avtp_payload) == 24, "C12 struct avtp_stream_pdu is 24 bytes with payload at 24");')
        o.append('  VP_ASSERT(offsetof(struct avtp_stream_pdu, stream_id) == 4 && offsetof(struct avtp_stream_pdu, avtp_time) == 12 && offsetof(struct avtp_stream_pdu, format_specific) == 16 && offsetof(struct avtp_stream_pdu, packet_info) == 20, "C12 struct avtp_stream_pdu members overlay stream_id/avtp_timestamp/format/packet_info");')
    if b.fmt in ('pcm', 'cvf'):
        o.append('  VP_ASSERT(sizeof(struct avtp_stream_pdu) == sizeof(%s) && offsetof(struct avtp_stream_pdu, avtp_payload) == offsetof(%s, payload), "C12 struct avtp_stream_pdu overlays %s (size, payload offset)");' % (b.ctype, b.ctype, b.ctype))
    if b.fmt == 'crf':
        o.append('  VP_ASSERT(sizeof(struct avtp_crf_pdu) == sizeof(Avtp_Crf_t) && sizeof(struct avtp_crf_pdu) == 20 && offsetof(struct avtp_crf_pdu, crf_data) == offsetof(Avtp_Crf_t, payload), "C12 struct avtp_crf_pdu overlays Avtp_Crf_t (20 bytes, data at 20)");')
    if b.fmt == 'rvf':
        o.append('  VP_ASSERT(sizeof(struct avtp_stream_pdu) + sizeof(struct avtp_rvf_payload) == sizeof(Avtp_Rvf_t) && offsetof(struct avtp_rvf_payload, raw_data) == 8, "C12 struct avtp_stream_pdu + avtp_rvf_payload raw header overlay Avtp_Rvf_t (24 + 8 = 32)");')
    o.append('  VP_REACH("c12 %s end");' % b.fmt)
    o.append('}')
    return '\n'.join(o) + '\n', n
