"""C18 / C19: wrapper translation units around the UNMODIFIED example sources.
The example .c file is #include'd (main renamed), the environment is replaced by stubs."""

# Environment stubs shared by every listener wrapper.  Every stub is part of the claim.
STUBS = r'''
#include "vp.h"
#include <stdarg.h>
#include <stdio.h>
#include <errno.h>
#include <time.h>
#include <poll.h>
#include <sys/types.h>
#include <sys/socket.h>
#include <sys/timerfd.h>
#include <argp.h>
#include <unistd.h>

#ifndef VP_NDG
#define VP_NDG 1
#endif
#ifndef VP_DG_MAX
#define VP_DG_MAX 1500     /* = the listeners' receive buffer size (scaled runs redefine both) */
#endif
#ifndef VP_LEN_MAX
#define VP_LEN_MAX VP_DG_MAX      /* bound on the RECEIVED length; the buffer tail stays arbitrary */
#endif
typedef struct { uint8_t d[VP_NDG][VP_DG_MAX]; uint16_t len[VP_NDG]; uint8_t cfg[4]; uint8_t st[16]; } vp_in_t;
static vp_in_t vp_g;
static int vp_dg_idx;
static int vp_fatal_env;      /* set when a stubbed environment call reported failure */
static unsigned vp_writes;

/* recv: delivers the next datagram: an arbitrary length 0..1500 with arbitrary content; the bytes of
 * the caller's buffer beyond that length keep "stale" content, which is arbitrary too (the tail of d[]) */
ssize_t recv(int fd, void *buf, size_t n, int flags)
{
    (void)fd; (void)flags;
    if (vp_dg_idx >= VP_NDG) { vp_fatal_env = 1; return -1; }
    size_t m = n < VP_DG_MAX ? n : VP_DG_MAX;
    uint8_t *b = (uint8_t *)buf;
    for (size_t i = 0; i < m; i++) b[i] = vp_g.d[vp_dg_idx][i];
    ssize_t r = vp_g.len[vp_dg_idx] <= m ? vp_g.len[vp_dg_idx] : (ssize_t)m;
    vp_dg_idx++;
    return r;
}
/* write / sendto: the source region must be readable; returns the full length */
static volatile uint8_t vp_sink;
ssize_t write(int fd, const void *buf, size_t n)
{
    (void)fd;
    const uint8_t *b = (const uint8_t *)buf;
    for (size_t i = 0; i < n; i++) vp_sink ^= b[i];
    vp_writes++;
#ifdef VP_CAPTURE_WRITE
    VP_CAPTURE_WRITE(buf, n);
#endif
    return (ssize_t)n;
}
ssize_t read(int fd, void *buf, size_t n)
{
    (void)fd;
#ifdef VP_READ_HOOK
    return VP_READ_HOOK(buf, n);
#endif
    uint8_t *b = (uint8_t *)buf;
    for (size_t i = 0; i < n; i++) b[i] = 0;
    if (n >= 8) b[0] = 1, b[7] = 0;      /* timerfd: one expiration (host order little or big: 1 in the low or high byte is both != 0) */
    return (ssize_t)n;
}
void perror(const char *s) { (void)s; }
int fprintf(FILE *f, const char *fmt, ...) { (void)f; (void)fmt; return 0; }
int fflush(FILE *f) { (void)f; return 0; }
int fputs(const char *s, FILE *f) { (void)s; (void)f; return 0; }
/* printf: walks the literal format; every %s argument must be readable up to its NUL */
int printf(const char *fmt, ...)
{
    va_list ap;
    va_start(ap, fmt);
    for (const char *p = fmt; *p; p++) {
        if (*p != '%') continue;
        p++;
        int prec = -1, islong = 0;
        /* flags / width / precision / length modifiers (bounded: at most 8 characters) */
        for (int g = 0; g < 8; g++) {
            if (*p == '.') { p++; if (*p == '*') { prec = va_arg(ap, int); p++; } continue; }
            if (*p == 'l') { islong = 1; p++; continue; }
            if (*p == 'h' || *p == 'z' || *p == '-' || *p == '+' || *p == '#' || *p == ' ' || (*p >= '0' && *p <= '9')) { p++; continue; }
            break;
        }
        if (*p == 's') {
            const char *s = va_arg(ap, const char *);
            VP_ASSERT(s != 0, "C18 printf %s argument is not NULL");
            unsigned k = 0;
            /* reading beyond the object fails a pointer check (CBMC) / an ASan check (replay) */
            while ((prec < 0 || k < (unsigned)prec) && s[k] != 0) k++;
            vp_sink ^= (uint8_t)k;
        } else if (*p == 'f' || *p == 'g' || *p == 'e') {
            (void)va_arg(ap, double);
        } else if (*p == '%') {
        } else if (*p) {
            if (islong) (void)va_arg(ap, long); else (void)va_arg(ap, int);
        } else break;
    }
    va_end(ap);
    return 0;
}
int puts(const char *s) { unsigned k = 0; while (s[k]) k++; vp_sink ^= (uint8_t)k; return 0; }
error_t argp_parse(const struct argp *a, int argc, char **argv, unsigned fl, int *idx, void *in)
{ (void)a; (void)argc; (void)argv; (void)fl; (void)idx; (void)in; return 0; }
int poll(struct pollfd *fds, nfds_t n, int timeout)
{ (void)timeout; for (nfds_t i = 0; i < n; i++) fds[i].revents = 0; if (n) fds[0].revents = POLLIN; return 1; }
int close(int fd) { (void)fd; return 0; }
int timerfd_create(int c, int f) { (void)c; (void)f; return 5; }
int timerfd_settime(int fd, int fl, const struct itimerspec *n, struct itimerspec *o) { (void)fd; (void)fl; (void)n; (void)o; return 0; }
int create_listener_socket_udp(uint32_t udp_port) { (void)udp_port; return 3; }
int create_listener_socket(char *ifname, uint8_t macaddr[], int protocol) { (void)ifname; (void)macaddr; (void)protocol; return 3; }
int create_talker_socket(int priority) { (void)priority; return 3; }
int create_talker_socket_udp(int priority) { (void)priority; return 3; }
int get_presentation_time(uint64_t avtp_time, struct timespec *tspec) { tspec->tv_sec = (time_t)(avtp_time >> 8); tspec->tv_nsec = (long)(avtp_time & 0xff); return 0; }
int arm_timer(int fd, struct timespec *tspec) { (void)fd; vp_sink ^= (uint8_t)tspec->tv_nsec; return 0; }
int present_data(uint8_t *data, size_t len) { for (size_t i = 0; i < len; i++) vp_sink ^= data[i]; return 0; }
int clock_gettime(clockid_t c, struct timespec *t) { (void)c; t->tv_sec = 1700000000; t->tv_nsec = 0; return 0; }
static void vp_load_input(void)
{
    VP_INPUT(vp_in_t, in);
    for (int i = 0; i < VP_NDG; i++) VP_ASSUME(in.len[i] <= VP_LEN_MAX);
    vp_g = in; vp_dg_idx = 0; vp_fatal_env = 0; vp_writes = 0;
}
'''


def acf_can_listener(ndg=1, modes=None):
    o = ['#define VP_NDG %d' % ndg, STUBS]
    o.append('#include "avtp/acf/Can.h"')
    o.append('int setup_can_socket(const char *ifn, Avtp_CanVariant_t variant) { (void)ifn; (void)variant; return 4; }')
    o.append('#define main listener_main')
    o.append('#include "acf-can/acf-can-listener.c"')
    o.append('#undef main')
    o.append('void harness(void) {')
    o.append('  vp_load_input();')
    if modes is None:
        o.append('  use_udp = vp_g.cfg[0] & 1; can_variant = (vp_g.cfg[1] & 1) ? AVTP_CAN_FD : AVTP_CAN_CLASSIC;')
    else:
        o.append('  use_udp = %d; can_variant = %s;' % (modes[0], 'AVTP_CAN_FD' if modes[1] else 'AVTP_CAN_CLASSIC'))
    o.append('  for (int i = 0; i < VP_NDG; i++) {')
    o.append('    int r = new_packet(3, 4);')
    o.append('    VP_ASSERT(r >= 0, "C18 acf-can-listener remains able to process the next datagram (no fatal status for a bad datagram)");')
    o.append('  }')
    o.append('  VP_REACH("c18 acf-can-listener end");')
    o.append('}')
    return '\n'.join(o) + '\n'


def main_loop_listener(path, name, ndg=1, cfg_lines=()):
    """listeners whose receive path is the body of main()'s while(1): the recv stub ends the loop
    after VP_NDG datagrams by failing (environment failure -> the listener may exit)"""
    o = ['#define VP_NDG %d' % ndg, STUBS]
    o.append('#define main listener_main')
    o.append('#include "%s"' % path)
    o.append('#undef main')
    o.append('void harness(void) {')
    o.append('  vp_load_input();')
    o += ['  ' + l for l in cfg_lines]
    o.append('  char *argv[2] = { "listener", 0 };')
    o.append('  int rc = listener_main(1, argv);')
    o.append('  VP_ASSERT(vp_fatal_env, "C18 %s leaves its receive loop only because the (stubbed) environment failed, never because of a datagram");' % name)
    o.append('  VP_ASSERT(vp_dg_idx == VP_NDG, "C18 %s consumed every delivered datagram");' % name)
    o.append('  (void)rc;')
    o.append('  VP_REACH("c18 %s end");' % name)
    o.append('}')
    return '\n'.join(o) + '\n'


def packet_fn_listener(path, name, call, ndg=1, pre=(), extra_stubs='', between=None):
    o = ['#define VP_NDG %d' % ndg, STUBS, extra_stubs]
    o.append('#define main listener_main')
    o.append('#include "%s"' % path)
    o.append('#undef main')
    o.append('void harness(void) {')
    o.append('  vp_load_input();')
    o += ['  ' + l for l in pre]
    o.append('  for (int i = 0; i < VP_NDG; i++) {')
    o.append('    int r = %s;' % call)
    o.append('    VP_ASSERT(r >= 0, "C18 %s remains able to process the next datagram (no fatal status for a bad datagram)");' % name)
    if between:
        # the main loop may serve the timer between two datagrams (symbolic choice; only when armed)
        o.append('    if ((vp_g.st[8 + i] & 1) && %s) {' % between[0])
        o.append('      r = %s;' % between[1])
        o.append('      VP_ASSERT(r >= 0, "C18 %s timer expiry between datagrams is served without a fatal status");' % name)
        o.append('    }')
    o.append('  }')
    o.append('  VP_REACH("c18 %s end");' % name)
    o.append('}')
    return '\n'.join(o) + '\n'


# ------------------------------------------------------------------------------------------
# C19: talker -> wire -> listener
# ------------------------------------------------------------------------------------------
TALKER_TU = r'''
/* wrapper around the UNMODIFIED acf-can-talker.c: its real main() sending loop is executed; read()
 * (defined with the other stubs) hands it the CAN frames, sendto() captures the packet and then
 * reports failure so that the endless sending loop is left after one packet */
#include <stdint.h>
#include <string.h>
#include <time.h>
#include <sys/types.h>
#include <sys/socket.h>
#include <netinet/in.h>
#include <linux/if_packet.h>
#ifndef VP_DG_MAX
#define VP_DG_MAX 1500
#endif
uint8_t vp_wire[VP_DG_MAX];
int vp_wire_len = -1;
int setup_udp_socket_address(struct in_addr *a, uint32_t port, struct sockaddr_in *s) { (void)a; (void)port; (void)s; return 0; }
int setup_socket_address(int fd, const char *ifn, uint8_t mac[], int proto, struct sockaddr_ll *s) { (void)fd; (void)ifn; (void)mac; (void)proto; (void)s; return 0; }
ssize_t sendto(int fd, const void *b, size_t n, int fl, const struct sockaddr *a, socklen_t l)
{
    (void)fd; (void)fl; (void)a; (void)l;
    if (vp_wire_len < 0) {
        vp_wire_len = (int)(n <= VP_DG_MAX ? n : VP_DG_MAX);
        for (int i = 0; i < vp_wire_len; i++) vp_wire[i] = ((const uint8_t *)b)[i];
        if (n > VP_DG_MAX) vp_wire_len = -2;
    }
    return -1;
}
#define main talker_main
#include "acf-can/acf-can-talker.c"
#undef main
int vp_talker_run(int n, int tscf, int udp, int fd)
{
    char *argv[2] = { "talker", 0 };
    use_tscf = tscf; use_udp = udp; can_variant = fd ? AVTP_CAN_FD : AVTP_CAN_CLASSIC; num_acf_msgs = n;
    vp_wire_len = -1;
    (void)talker_main(1, argv);
    return vp_wire_len;
}
'''


def c19_tunnel(nframes, tscf, udp, fd, fixed_lens=()):
    ftype = 'struct canfd_frame' if fd else 'struct can_frame'
    maxlen = 64 if fd else 8
    o = ['#define VP_NDG 1']
    o.append('#include <linux/can.h>')
    o.append('#include <stdint.h>')
    o.append('static void vp_capture(const void *buf, unsigned long n);')
    o.append('#define VP_CAPTURE_WRITE(b, n) vp_capture(b, n)')
    o.append('static long vp_next_frame(void *buf, unsigned long n);')
    o.append('#define VP_READ_HOOK(b, n) vp_next_frame(b, n)')
    o.append(STUBS.replace('typedef struct { uint8_t d[VP_NDG][VP_DG_MAX]; uint16_t len[VP_NDG]; uint8_t cfg[4]; uint8_t st[16]; } vp_in_t;',
                           'typedef struct { uint8_t d[VP_NDG][VP_DG_MAX]; uint16_t len[VP_NDG]; uint8_t cfg[4]; uint8_t st[16]; '
                           'struct { uint32_t can_id; uint8_t len; uint8_t flags; uint8_t data[%d]; } fr[%d]; } vp_in_t;' % (maxlen, nframes)))
    o.append('#include "avtp/acf/Can.h"')
    o.append('int setup_can_socket(const char *ifn, Avtp_CanVariant_t variant) { (void)ifn; (void)variant; return 4; }')
    o.append('#define main listener_main')
    o.append('#include "acf-can/acf-can-listener.c"')
    o.append('#undef main')
    o.append('int vp_talker_run(int n, int tscf, int udp, int fd); extern uint8_t vp_wire[]; extern int vp_wire_len;')
    o.append('static frame_t vp_frames[%d]; static unsigned vp_frame_idx;' % nframes)
    o.append('/* read() of the talker: the next CAN frame from the CAN socket */')
    o.append('static long vp_next_frame(void *buf, unsigned long n) { if (vp_frame_idx >= %d) return -1; memcpy(buf, &vp_frames[vp_frame_idx], n < sizeof(frame_t) ? n : sizeof(frame_t)); vp_frame_idx++; return (long)n; }' % nframes)
    o.append('static uint8_t vp_out[%d][sizeof(struct canfd_frame)]; static unsigned vp_out_n; static unsigned long vp_out_sz[%d];' % (nframes + 1, nframes + 1))
    o.append('static void vp_capture(const void *buf, unsigned long n) { if (vp_out_n < %d) { memcpy(vp_out[vp_out_n], buf, n < sizeof(struct canfd_frame) ? n : sizeof(struct canfd_frame)); vp_out_sz[vp_out_n] = n; } vp_out_n++; }' % (nframes + 1))
    o.append('void harness(void) {')
    o.append('  VP_INPUT(vp_in_t, in);')
    o.append('  vp_g = in; vp_dg_idx = 0; vp_fatal_env = 0; vp_writes = 0; vp_out_n = 0;')
    o.append('  frame_t fr[%d]; unsigned total = 0;' % nframes)
    o.append('  for (int i = 0; i < %d; i++) {' % nframes)
    o.append('    uint32_t id = in.fr[i].can_id;')
    o.append('    /* what SocketCAN can deliver: no error frames, 11-bit ids without EFF, length within the variant */')
    o.append('    VP_ASSUME((id & CAN_ERR_FLAG) == 0);')
    o.append('    VP_ASSUME((id & CAN_EFF_FLAG) || (id & CAN_EFF_MASK) <= CAN_SFF_MASK);')
    o.append('    VP_ASSUME(in.fr[i].len <= %d);' % maxlen)
    # concrete lengths for all but the last frame keep the offsets of later messages concrete for the
    # symbolic executor (a symbolic offset into the 1500-byte buffers exhausts memory: measured 40 GB)
    for i, ln in enumerate(fixed_lens):
        o.append('    if (i == %d) { VP_ASSUME(in.fr[i].len == %d); in.fr[i].len = %d; }' % (i, ln, ln))
    o.append('    memset(&fr[i], 0, sizeof fr[i]);')
    if fd:
        o.append('    VP_ASSUME((in.fr[i].flags & ~(CANFD_BRS | CANFD_ESI)) == 0);')
        o.append('    fr[i].fd.can_id = id; fr[i].fd.len = in.fr[i].len; fr[i].fd.flags = in.fr[i].flags; memcpy(fr[i].fd.data, in.fr[i].data, %d);' % maxlen)
    else:
        o.append('    fr[i].cc.can_id = id; fr[i].cc.len = in.fr[i].len; memcpy(fr[i].cc.data, in.fr[i].data, %d);' % maxlen)
    o.append('    total += 16u + in.fr[i].len + ((4u - in.fr[i].len % 4u) % 4u);')
    o.append('  }')
    o.append('  /* talker: its real main() sending loop reads the frames and hands one packet to sendto() */')
    o.append('  for (int i = 0; i < %d; i++) vp_frames[i] = fr[i];' % nframes)
    o.append('  vp_frame_idx = 0;')
    o.append('  int plen = vp_talker_run(%d, %d, %d, %d);' % (nframes, tscf, udp, fd))
    o.append('  VP_ASSERT(plen >= 0, "C19 talker sends one packet that fits the transmit buffer");')
    o.append('  if (plen < 0) return;')
    o.append('  uint8_t *wire = vp_g.d[0]; for (int i = 0; i < plen; i++) wire[i] = vp_wire[i];')
    o.append('  VP_ASSERT(plen == (int)(%d + %d + total), "C19 talker packet length = encapsulation + control header + padded ACF messages");' % (4 if udp else 0, 24 if tscf else 12))
    cf_off = 4 if udp else 0
    if tscf:
        o.append('  VP_ASSERT(spec_get(wire + %d, 160, 16) == total, "C19 TSCF stream_data_length announces exactly the bytes occupied by the ACF messages");' % cf_off)
    else:
        o.append('  VP_ASSERT(spec_get(wire + %d, 13, 11) == total, "C19 NTSCF ntscf_data_length announces exactly the bytes occupied by the ACF messages");' % cf_off)
    o.append('  vp_g.len[0] = (uint16_t)plen;')
    o.append('  /* listener: parses the datagram and writes CAN frames */')
    o.append('  use_udp = %d; can_variant = %s;' % (udp, 'AVTP_CAN_FD' if fd else 'AVTP_CAN_CLASSIC'))
    o.append('  int r = new_packet(3, 4);')
    o.append('  VP_ASSERT(r == 1, "C19 listener accepts the packet built by the talker");')
    o.append('  VP_ASSERT(vp_out_n == %d, "C19 listener emits exactly one CAN frame per frame handed to the talker");' % nframes)
    o.append('  for (unsigned i = 0; i < %d && i < vp_out_n; i++) {' % nframes)
    o.append('    %s of; memcpy(&of, vp_out[i], sizeof of);' % ftype)
    o.append('    VP_ASSERT(vp_out_sz[i] == sizeof(%s), "C19 listener writes a frame of the variant\'s size");' % ftype)
    o.append('    VP_ASSERT((of.can_id & CAN_EFF_MASK) == (in.fr[i].can_id & CAN_EFF_MASK), "C19 CAN identifier survives the tunnel");')
    o.append('    VP_ASSERT((of.can_id & CAN_EFF_FLAG) == (in.fr[i].can_id & CAN_EFF_FLAG), "C19 extended-frame flag survives the tunnel");')
    o.append('    VP_ASSERT((of.can_id & CAN_RTR_FLAG) == (in.fr[i].can_id & CAN_RTR_FLAG), "C19 remote-frame flag survives the tunnel");')
    o.append('    VP_ASSERT((of.can_id & CAN_ERR_FLAG) == 0, "C19 no error flag is invented");')
    o.append('    VP_ASSERT(of.len == in.fr[i].len, "C19 frame length survives the tunnel");')
    o.append('    { int ok = 1; for (unsigned k = 0; k < %d; k++) if (k < in.fr[i].len && of.data[k] != in.fr[i].data[k]) ok = 0;' % maxlen)
    o.append('      VP_ASSERT(ok, "C19 frame data survives the tunnel"); }')
    if fd:
        o.append('    VP_ASSERT((of.flags & (CANFD_BRS | CANFD_ESI)) == (in.fr[i].flags & (CANFD_BRS | CANFD_ESI)), "C19 FD flags BRS/ESI survive the tunnel (also for the 2nd and later frames of a packet)");')
    o.append('  }')
    o.append('  VP_REACH("c19 tunnel end");')
    o.append('}')
    return '\n'.join(o) + '\n', {'vp_talker.c': TALKER_TU}
