"""C18 / C19: wrapper translation units around the UNMODIFIED example sources.
The example .c file is #include'd (main renamed), the environment is replaced by stubs."""

# Environment stubs shared by every listener wrapper.  Every stub is part of the claim.
STUBS = r'''
#include "vp.h"
#include <stdarg.h>
#include <stdio.h>
#include <errno.h>
#include <time.h>
#include <poll.h>
#include <sys/types.h>
#include <sys/socket.h>
#include <sys/timerfd.h>
#include <argp.h>
#include <unistd.h>

#ifndef VP_NDG
#define VP_NDG 1
#endif
#define VP_DG_MAX 1500
typedef struct { uint8_t d[VP_NDG][VP_DG_MAX]; uint16_t len[VP_NDG]; uint8_t cfg[4]; uint8_t st[16]; } vp_in_t;
static vp_in_t vp_g;
static int vp_dg_idx;
static int vp_fatal_env;      /* set when a stubbed environment call reported failure */
static unsigned vp_writes;

/* recv: delivers the next datagram: an arbitrary length 0..1500 with arbitrary content; the bytes of
 * the caller's buffer beyond that length keep "stale" content, which is arbitrary too (the tail of d[]) */
ssize_t recv(int fd, void *buf, size_t n, int flags)
{
    (void)fd; (void)flags;
    if (vp_dg_idx >= VP_NDG) { vp_fatal_env = 1; return -1; }
    size_t m = n < VP_DG_MAX ? n : VP_DG_MAX;
    uint8_t *b = (uint8_t *)buf;
    for (size_t i = 0; i < m; i++) b[i] = vp_g.d[vp_dg_idx][i];
    ssize_t r = vp_g.len[vp_dg_idx] <= m ? vp_g.len[vp_dg_idx] : (ssize_t)m;
    vp_dg_idx++;
    return r;
}
/* write / sendto: the source region must be readable; returns the full length */
static volatile uint8_t vp_sink;
ssize_t write(int fd, const void *buf, size_t n)
{
    (void)fd;
    const uint8_t *b = (const uint8_t *)buf;
    for (size_t i = 0; i < n; i++) vp_sink ^= b[i];
    vp_writes++;
#ifdef VP_CAPTURE_WRITE
    VP_CAPTURE_WRITE(buf, n);
#endif
    return (ssize_t)n;
}
ssize_t read(int fd, void *buf, size_t n)
{
    (void)fd;
    uint8_t *b = (uint8_t *)buf;
    for (size_t i = 0; i < n; i++) b[i] = 0;
    if (n >= 8) b[0] = 1, b[7] = 0;      /* timerfd: one expiration (host order little or big: 1 in the low or high byte is both != 0) */
    return (ssize_t)n;
}
void perror(const char *s) { (void)s; }
int fprintf(FILE *f, const char *fmt, ...) { (void)f; (void)fmt; return 0; }
int fflush(FILE *f) { (void)f; return 0; }
int fputs(const char *s, FILE *f) { (void)s; (void)f; return 0; }
/* printf: walks the literal format; every %s argument must be readable up to its NUL */
int printf(const char *fmt, ...)
{
    va_list ap;
    va_start(ap, fmt);
    for (const char *p = fmt; *p; p++) {
        if (*p != '%') continue;
        p++;
        while (*p == 'l' || *p == 'h' || *p == 'z' || *p == '"' || (*p >= '0' && *p <= '9') || *p == '.') {
            if (*p == 'l') { p++; if (*p == 'l') p++; if (*p == 'd' || *p == 'u' || *p == 'x') { (void)va_arg(ap, long); goto next; } continue; }
            p++;
        }
        if (*p == 's') {
            const char *s = va_arg(ap, const char *);
            VP_ASSERT(s != 0, "C18 printf %s argument is not NULL");
            unsigned k = 0;
            while (s[k] != 0) k++;           /* reading beyond the object fails a pointer check / ASan */
            vp_sink ^= (uint8_t)k;
        } else if (*p == 'f' || *p == 'g' || *p == 'e') {
            (void)va_arg(ap, double);
        } else if (*p == '%') {
        } else if (*p) {
            (void)va_arg(ap, int);
        } else break;
next:   ;
    }
    va_end(ap);
    return 0;
}
int puts(const char *s) { unsigned k = 0; while (s[k]) k++; vp_sink ^= (uint8_t)k; return 0; }
error_t argp_parse(const struct argp *a, int argc, char **argv, unsigned fl, int *idx, void *in)
{ (void)a; (void)argc; (void)argv; (void)fl; (void)idx; (void)in; return 0; }
int poll(struct pollfd *fds, nfds_t n, int timeout)
{ (void)timeout; for (nfds_t i = 0; i < n; i++) fds[i].revents = 0; if (n) fds[0].revents = POLLIN; return 1; }
int close(int fd) { (void)fd; return 0; }
int timerfd_create(int c, int f) { (void)c; (void)f; return 5; }
int timerfd_settime(int fd, int fl, const struct itimerspec *n, struct itimerspec *o) { (void)fd; (void)fl; (void)n; (void)o; return 0; }
int create_listener_socket_udp(uint32_t udp_port) { (void)udp_port; return 3; }
int create_listener_socket(char *ifname, uint8_t macaddr[], int protocol) { (void)ifname; (void)macaddr; (void)protocol; return 3; }
int create_talker_socket(int priority) { (void)priority; return 3; }
int create_talker_socket_udp(int priority) { (void)priority; return 3; }
int get_presentation_time(uint64_t avtp_time, struct timespec *tspec) { tspec->tv_sec = (time_t)(avtp_time >> 8); tspec->tv_nsec = (long)(avtp_time & 0xff); return 0; }
int arm_timer(int fd, struct timespec *tspec) { (void)fd; vp_sink ^= (uint8_t)tspec->tv_nsec; return 0; }
int present_data(uint8_t *data, size_t len) { for (size_t i = 0; i < len; i++) vp_sink ^= data[i]; return 0; }
int clock_gettime(clockid_t c, struct timespec *t) { (void)c; t->tv_sec = 1700000000; t->tv_nsec = 0; return 0; }
static void vp_load_input(void)
{
    VP_INPUT(vp_in_t, in);
    for (int i = 0; i < VP_NDG; i++) VP_ASSUME(in.len[i] <= VP_DG_MAX);
    vp_g = in; vp_dg_idx = 0; vp_fatal_env = 0; vp_writes = 0;
}
'''


def acf_can_listener(ndg=1, modes=None):
    o = ['#define VP_NDG %d' % ndg, STUBS]
    o.append('#include "avtp/acf/Can.h"')
    o.append('int setup_can_socket(const char *ifn, Avtp_CanVariant_t variant) { (void)ifn; (void)variant; return 4; }')
    o.append('#define main listener_main')
    o.append('#include "acf-can/acf-can-listener.c"')
    o.append('#undef main')
    o.append('void harness(void) {')
    o.append('  vp_load_input();')
    if modes is None:
        o.append('  use_udp = vp_g.cfg[0] & 1; can_variant = (vp_g.cfg[1] & 1) ? AVTP_CAN_FD : AVTP_CAN_CLASSIC;')
    else:
        o.append('  use_udp = %d; can_variant = %s;' % (modes[0], 'AVTP_CAN_FD' if modes[1] else 'AVTP_CAN_CLASSIC'))
    o.append('  for (int i = 0; i < VP_NDG; i++) {')
    o.append('    int r = new_packet(3, 4);')
    o.append('    VP_ASSERT(r >= 0, "C18 acf-can-listener remains able to process the next datagram (no fatal status for a bad datagram)");')
    o.append('  }')
    o.append('  VP_REACH("c18 acf-can-listener end");')
    o.append('}')
    return '\n'.join(o) + '\n'


def main_loop_listener(path, name, ndg=1, cfg_lines=()):
    """listeners whose receive path is the body of main()'s while(1): the recv stub ends the loop
    after VP_NDG datagrams by failing (environment failure -> the listener may exit)"""
    o = ['#define VP_NDG %d' % ndg, STUBS]
    o.append('#define main listener_main')
    o.append('#include "%s"' % path)
    o.append('#undef main')
    o.append('void harness(void) {')
    o.append('  vp_load_input();')
    o += ['  ' + l for l in cfg_lines]
    o.append('  char *argv[2] = { "listener", 0 };')
    o.append('  int rc = listener_main(1, argv);')
    o.append('  VP_ASSERT(vp_fatal_env, "C18 %s leaves its receive loop only because the (stubbed) environment failed, never because of a datagram");' % name)
    o.append('  VP_ASSERT(vp_dg_idx == VP_NDG, "C18 %s consumed every delivered datagram");' % name)
    o.append('  (void)rc;')
    o.append('  VP_REACH("c18 %s end");' % name)
    o.append('}')
    return '\n'.join(o) + '\n'


def packet_fn_listener(path, name, call, ndg=1, pre=(), extra_stubs=''):
    o = ['#define VP_NDG %d' % ndg, STUBS, extra_stubs]
    o.append('#define main listener_main')
    o.append('#include "%s"' % path)
    o.append('#undef main')
    o.append('void harness(void) {')
    o.append('  vp_load_input();')
    o += ['  ' + l for l in pre]
    o.append('  for (int i = 0; i < VP_NDG; i++) {')
    o.append('    int r = %s;' % call)
    o.append('    VP_ASSERT(r >= 0, "C18 %s remains able to process the next datagram (no fatal status for a bad datagram)");' % name)
    o.append('  }')
    o.append('  VP_REACH("c18 %s end");' % name)
    o.append('}')
    return '\n'.join(o) + '\n'
