"""C10: VSS string-array packing / counting / unpacking."""


def c10_functional(S, L):
    """symbolic number of strings 0..S, symbolic lengths 0..L, fixed maximum-size buffers"""
    P = S * (2 + L)          # maximum packed size
    R = S + 2                # maximum requested count
    o = ['#include "vp.h"', '#include "avtp/acf/custom/Vss.h"']
    o.append('typedef struct { uint8_t n; uint8_t len[%d]; uint8_t str[%d][%d]; uint8_t packed0[%d]; uint8_t req; uint8_t out0[%d][%d]; uint16_t outlen0[%d]; uint16_t dl0; } vp_in_t;'
             % (S, S, max(L, 1), P + 8, R, max(L, 1), R))
    o.append('void harness(void) {')
    o.append('  VP_INPUT(vp_in_t, in);')
    o.append('  VP_ASSUME(in.n <= %d);' % S)
    o.append('  VssDataString_t src[%d]; VssDataString_t *srcp[%d]; unsigned total = 0;' % (S, S))
    o.append('  static uint8_t ref[%d]; memcpy(ref, in.packed0, %d);' % (P + 8, P + 8))
    o.append('  for (unsigned i = 0; i < %d; i++) {' % S)
    o.append('    VP_ASSUME(in.len[i] <= %d);' % L)
    o.append('    src[i].data_length = in.len[i]; src[i].data = (char *)vp_obj_from(in.str[i], %d); srcp[i] = &src[i];' % max(L, 1))
    o.append('    if (i < in.n) { ref[total] = 0; ref[total + 1] = in.len[i];')
    o.append('      for (unsigned k = 0; k < %d; k++) if (k < in.len[i]) ref[total + 2 + k] = in.str[i][k];' % L)
    o.append('      total += 2u + in.len[i]; }')
    o.append('  }')
    o.append('  uint8_t *packed = vp_pdu_from(in.packed0, %d);' % (P + 8))
    o.append('  VssDataStringArray_t arr; arr.data = packed; arr.data_length = in.dl0;')
    o.append('  Avtp_Vss_SerializeStringArray(&arr, srcp, in.n);')
    o.append('  VP_ASSERT(arr.data_length == total, "C10 packing records the total byte length");')
    o.append('  VP_ASSERT(arr.data == packed, "C10 packing does not move the caller\'s buffer pointer");')
    o.append('  VP_ASSERT(vp_bytes_eq(packed, ref, %d), "C10 packed bytes are the concatenation of 16-bit big-endian length + bytes of each string, nothing beyond is written");' % (P + 8))
    o.append('  unsigned cnt = Avtp_Vss_GetVSSDataStringArrayLength(&arr);')
    o.append('  VP_ASSERT(cnt == in.n, "C10 counting a packed array returns the number of strings");')
    # unpack: lengths first
    o.append('  VP_ASSUME(in.req <= %d);' % R)
    o.append('  VssDataString_t dst[%d]; VssDataString_t *dstp[%d];' % (R, R))
    o.append('  for (unsigned i = 0; i < %d; i++) { dst[i].data_length = in.outlen0[i]; dst[i].data = 0; dstp[i] = &dst[i]; }' % R)
    o.append('  Avtp_Vss_DeserializeStringArray(&arr, dstp, in.req);')
    o.append('  for (unsigned i = 0; i < %d; i++) {' % R)
    o.append('    if (i < in.req && i < in.n) VP_ASSERT(dst[i].data_length == in.len[i], "C10 unpacking without destinations reports each string length");')
    o.append('    else VP_ASSERT(dst[i].data_length == in.outlen0[i], "C10 unpacking leaves entries beyond the packed/requested count untouched");')
    o.append('    VP_ASSERT(dst[i].data == 0, "C10 length query does not invent destination pointers");')
    o.append('  }')
    o.append('  uint8_t *outb[%d];' % R)
    o.append('  for (unsigned i = 0; i < %d; i++) { outb[i] = vp_obj_from(in.out0[i], %d); dst[i].data = (char *)outb[i]; }' % (R, max(L, 1)))
    o.append('  Avtp_Vss_DeserializeStringArray(&arr, dstp, in.req);')
    o.append('  for (unsigned i = 0; i < %d; i++) {' % R)
    o.append('    int ok = 1;')
    o.append('    for (unsigned k = 0; k < %d; k++) {' % max(L, 1))
    o.append('      uint8_t want = (i < in.req && i < in.n && k < in.len[i]) ? in.str[i][k] : in.out0[i][k];')
    o.append('      if (outb[i][k] != want) ok = 0; }')
    o.append('    VP_ASSERT(ok, "C10 unpacking copies exactly each string\'s bytes into its destination and writes nothing else");')
    o.append('    if (i < in.req && i < in.n) VP_ASSERT(dst[i].data_length == in.len[i], "C10 unpacking with destinations reports each string length");')
    o.append('  }')
    o.append('  VP_ASSERT(vp_bytes_eq(packed, ref, %d), "C10 counting and unpacking do not modify the packed array");' % (P + 8))
    o.append('  VP_REACH("c10 functional end");')
    o.append('}')
    return '\n'.join(o) + '\n'


def c10_extent(lens, req):
    """concrete length vector; packed array, sources and destinations of EXACT extent"""
    S = len(lens)
    total = sum(2 + l for l in lens)
    o = ['#include "vp.h"', '#include "avtp/acf/custom/Vss.h"']
    sl = sum(lens)
    o.append('typedef struct { uint8_t bytes[%d]; uint8_t packed0[%d]; uint8_t out0[%d]; uint16_t stale[%d]; } vp_in_t;' % (max(sl, 1), max(total, 1), max(sl, 1) + 8, max(req, 1)))
    o.append('void harness(void) {')
    o.append('  VP_INPUT(vp_in_t, in);')
    o.append('  VssDataString_t src[%d]; VssDataString_t *srcp[%d];' % (max(S, 1), max(S, 1)))
    off = 0
    for i, l in enumerate(lens):
        o.append('  src[%d].data_length = %d; src[%d].data = (char *)vp_obj_from(in.bytes + %d, %d); srcp[%d] = &src[%d];' % (i, l, i, off, l, i, i))
        off += l
    o.append('  uint8_t *packed = vp_pdu_from(in.packed0, %d);' % total)
    o.append('  VssDataStringArray_t arr; arr.data = packed; arr.data_length = 0xFFFF;')
    o.append('  Avtp_Vss_SerializeStringArray(&arr, srcp, %d);' % S)
    o.append('  VP_ASSERT(arr.data_length == %d, "C10 packing into an exact-extent buffer records the total byte length");' % total)
    pos = 0
    off = 0
    for i, l in enumerate(lens):
        o.append('  VP_ASSERT(packed[%d] == %d && packed[%d] == %d, "C10 16-bit big-endian length prefix of each string");' % (pos, l >> 8, pos + 1, l & 255))
        if l:
            o.append('  VP_ASSERT(vp_bytes_eq(packed + %d, in.bytes + %d, %d), "C10 string bytes verbatim after the prefix");' % (pos + 2, off, l))
        pos += 2 + l
        off += l
    o.append('  VP_ASSERT(Avtp_Vss_GetVSSDataStringArrayLength(&arr) == %d, "C10 counting an exact-extent packed array returns the number of strings and reads nothing beyond it");' % S)
    R = max(req, 1)
    o.append('  VssDataString_t dst[%d]; VssDataString_t *dstp[%d];' % (R, R))
    o.append('  for (unsigned i = 0; i < %d; i++) { dst[i].data_length = 0xAAAA; dst[i].data = 0; dstp[i] = &dst[i]; }' % R)
    o.append('  Avtp_Vss_DeserializeStringArray(&arr, dstp, %d);' % req)
    for i in range(req):
        if i < S:
            o.append('  VP_ASSERT(dst[%d].data_length == %d, "C10 length phase on an exact-extent array");' % (i, lens[i]))
        else:
            o.append('  VP_ASSERT(dst[%d].data_length == 0xAAAA, "C10 entries beyond the packed count are untouched");' % i)
    off = 0
    for i in range(req):
        l = lens[i] if i < S else 0
        # the length field of a (re-used) descriptor may hold anything when the data phase starts
        o.append('  dst[%d].data = (char *)vp_obj_from(in.out0 + %d, %d); dst[%d].data_length = in.stale[%d];' % (i, off, l, i, i))
        off += l
    o.append('  Avtp_Vss_DeserializeStringArray(&arr, dstp, %d);' % req)
    off = 0
    for i in range(min(req, S)):
        o.append('  VP_ASSERT(dst[%d].data_length == %d, "C10 data phase reports each string length whatever the descriptor held before");' % (i, lens[i]))
        if lens[i]:
            o.append('  VP_ASSERT(vp_bytes_eq((uint8_t *)dst[%d].data, (uint8_t *)src[%d].data, %d), "C10 unpacking into exact-extent destinations returns the original bytes");' % (i, i, lens[i]))
    o.append('  VP_REACH("c10 extent end");')
    o.append('}')
    return '\n'.join(o) + '\n'


def c10_count_many(n):
    """n empty strings (n > 255): the counter must not wrap"""
    o = ['#include "vp.h"', '#include "avtp/acf/custom/Vss.h"']
    o.append('typedef struct { uint8_t dummy; } vp_in_t;')
    o.append('void harness(void) {')
    o.append('  VP_INPUT(vp_in_t, in);')
    o.append('  uint8_t *packed = vp_pdu(%d); memset(packed, 0, %d);' % (2 * n, 2 * n))
    o.append('  VssDataStringArray_t arr; arr.data = packed; arr.data_length = %d;' % (2 * n))
    o.append('  VP_ASSERT(Avtp_Vss_GetVSSDataStringArrayLength(&arr) == %d, "C10 counting an array of more than 255 strings returns the true count");' % n)
    o.append('  VP_REACH("c10 count end");')
    o.append('}')
    return '\n'.join(o) + '\n'
