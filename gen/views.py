"""C17: overlapping header views agree (all pairs of views of a sharing group).
Each view's calls live in their own translation unit (one public header each), so that the
property is decided independently of C20 (combining headers)."""
from . import binding as B
from spec import wire_spec as W


def _wrap(b, f):
    v = b.fmt
    n = f['name']
    o = ['#include <stdint.h>', '#include "%s"' % b.header]
    o.append('uint64_t vw_%s_%s_get(void *p) { return %s((%s*)p, %s); }' % (v, n, b.getfield, b.ctype, f['enum']))
    o.append('void vw_%s_%s_set(void *p, uint64_t x) { %s((%s*)p, %s, x); }' % (v, n, b.setfield, b.ctype, f['enum']))
    if f['getter']:
        o.append('uint64_t vw_%s_%s_dget(void *p) { return (uint64_t)%s((%s*)p); }' % (v, n, f['getter'], b.ctype))
    if f['setter']:
        o.append('void vw_%s_%s_dset(void *p, uint64_t x) { %s((%s*)p, x); }' % (v, n, f['setter'], b.ctype))
    return '\n'.join(o) + '\n'


def c17_group(gi, group):
    binds = {v: B.bind(v) for v, _ in group}
    L = max(b.spec_len for b in binds.values())
    srcs = sorted({s for b in binds.values() for s in b.sources})
    extra = {}
    o = ['#include "vp.h"']
    def fld(view, name):
        return next(f for f in binds[view].fields if f['name'] == name)
    for v, n in group:
        f = fld(v, n)
        extra['view_%s_%s.c' % (v, n)] = _wrap(binds[v], f)
        o.append('uint64_t vw_%s_%s_get(void *p); void vw_%s_%s_set(void *p, uint64_t x);' % (v, n, v, n))
        if f['getter']:
            o.append('uint64_t vw_%s_%s_dget(void *p);' % (v, n))
        if f['setter']:
            o.append('void vw_%s_%s_dset(void *p, uint64_t x);' % (v, n))
    o.append('typedef struct { uint8_t buf[%d]; uint64_t v; } vp_in_t;' % L)
    o.append('void harness(void) {')
    o.append('  VP_INPUT(vp_in_t, in);')
    o.append('  uint8_t *a, *b; uint64_t ga, gb;')
    n = 0
    f0 = W.field(group[0][0], group[0][1])
    off, w = f0['off'], f0['width']
    o.append('  uint64_t exp = spec_get(in.buf, %d, %d);' % (off, w))
    for i in range(len(group)):
        for j in range(i + 1, len(group)):
            (va, na), (vb, nb) = group[i], group[j]
            fa, fb = fld(va, na), fld(vb, nb)
            A, Bn = 'vw_%s_%s' % (va, na), 'vw_%s_%s' % (vb, nb)
            tag = '%s.%s ~ %s.%s' % (va, na, vb, nb)
            o.append('  /* %s */' % tag)
            o.append('  a = vp_obj_from(in.buf, %d); b = vp_obj_from(in.buf, %d);' % (L, L))
            o.append('  ga = %s_get(a); gb = %s_get(a);' % (A, Bn))
            o.append('  VP_ASSERT(ga == gb && ga == exp, "C17 %s: generic readers of both views return the same (oracle) value");' % tag)
            if fa['getter'] and fb['getter']:
                o.append('  ga = %s_dget(a); gb = %s_dget(a);' % (A, Bn))
                o.append('  VP_ASSERT(ga == gb && ga == exp, "C17 %s: dedicated getters of both views return the same (oracle) value");' % tag)
            o.append('  %s_set(a, in.v); %s_set(b, in.v);' % (A, Bn))
            o.append('  VP_ASSERT(vp_bytes_eq(a, b, %d), "C17 %s: writing through either view leaves identical bytes");' % (L, tag))
            o.append('  gb = %s_get(a); ga = %s_get(b);' % (Bn, A))
            o.append('  VP_ASSERT(gb == (in.v & spec_mask(%d)) && ga == gb, "C17 %s: value written through one view reads back through the other");' % (w, tag))
            if fa['setter'] and fb['setter']:
                o.append('  memcpy(a, in.buf, %d); memcpy(b, in.buf, %d);' % (L, L))
                o.append('  %s_dset(a, in.v); %s_dset(b, in.v);' % (A, Bn))
                o.append('  VP_ASSERT(vp_bytes_eq(a, b, %d), "C17 %s: dedicated setters of both views leave identical bytes");' % (L, tag))
            o.append('  free(a); free(b);')
            n += 1
    o.append('  VP_REACH("c17 group end");')
    o.append('}')
    return '\n'.join(o) + '\n', srcs, n, L, extra
