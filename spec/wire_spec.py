"""
Wire oracle for COVESA/Open1722 verification -- DATA ONLY.

Written by hand from IEEE Std 1722-2016 (header figures of clauses 4, 5, 7, 8, 9, 10,
Annex J for UDP) and, for the VSS formats, from
examples/acf-vss/protocol_description/acf-vss.md.  It shares no code, tables or
(quadlet, offset) pairs with the library: every field is recorded by its ABSOLUTE bit
offset inside the header (bit 0 = most significant bit of byte 0) and its width.
It is endian neutral: everything is defined on bytes.

Nothing in here may be derived from /repo at run time.
"""

# kind: 'field' (named by the standard) | 'reserved' (reserved / format specific range)
def F(name, off, width, kind='field'):
    return {'name': name, 'off': off, 'width': width, 'kind': kind}

def R(name, off, width):
    return F(name, off, width, 'reserved')

# ---- common pieces ---------------------------------------------------------------------
def _stream_q0(r1='reserved', r2='reserved_2'):
    """AVTP common stream header, first quadlet (1722-2016 Fig. 4-?/5-?)"""
    return [F('subtype', 0, 8), F('sv', 8, 1), F('version', 9, 3), F('mr', 12, 1),
            R(r1, 13, 2), F('tv', 15, 1), F('sequence_num', 16, 8), R(r2, 24, 7),
            F('tu', 31, 1)]

def _stream_id_ts():
    return [F('stream_id', 32, 64), F('avtp_timestamp', 96, 32)]

def _acf_common():
    return [F('acf_msg_type', 0, 7), F('acf_msg_length', 7, 9)]

FORMATS = {}

# AVTP common header (first quadlet, control + stream): subtype, h/sv, version; the rest of
# the quadlet is subtype specific.
FORMATS['common'] = dict(len=4, fields=[
    F('subtype', 0, 8), F('h', 8, 1), F('version', 9, 3), R('subtype_specific', 12, 20)],
    init=None)

# UDP encapsulation (Annex J): 32-bit encapsulation sequence number.
FORMATS['udp'] = dict(len=4, fields=[F('encapsulation_seq_no', 0, 32)], init={})

# AAF (generic view, clause 7): format + 24 format specific bits, afsd/sp/evt + 8 bits
FORMATS['aaf'] = dict(len=24, fields=_stream_q0() + _stream_id_ts() + [
    F('format', 128, 8), F('aaf_format_specific_data_1', 136, 24),
    F('stream_data_length', 160, 16), F('afsd', 176, 3), F('sp', 179, 1), F('evt', 180, 4),
    F('aaf_format_specific_data_2', 184, 8)],
    init=None)   # the repository publishes no Avtp_Aaf_Init

# AAF PCM (clause 7.3)
FORMATS['pcm'] = dict(len=24, fields=_stream_q0() + _stream_id_ts() + [
    F('format', 128, 8), F('nsr', 136, 4), R('reserved_3', 140, 2),
    F('channels_per_frame', 142, 10), F('bit_depth', 152, 8),
    F('stream_data_length', 160, 16), R('reserved_4', 176, 3), F('sp', 179, 1),
    F('evt', 180, 4), R('reserved_5', 184, 8)],
    init={'subtype': 0x02, 'sv': 1})

# CVF (clause 8)
FORMATS['cvf'] = dict(len=24, fields=_stream_q0() + _stream_id_ts() + [
    F('format', 128, 8), F('format_subtype', 136, 8), R('reserved_3', 144, 16),
    F('stream_data_length', 160, 16), R('reserved_4', 176, 2), F('ptv', 178, 1),
    F('m', 179, 1), F('evt', 180, 4), R('reserved_5', 184, 8)],
    init={'subtype': 0x03, 'sv': 1, 'format': 0x2})

# CVF payload headers
FORMATS['h264'] = dict(len=4, fields=[F('h264_timestamp', 0, 32)], init={})
# RFC 2435 main JPEG header
FORMATS['mjpeg'] = dict(len=8, fields=[
    F('type_specific', 0, 8), F('fragment_offset', 8, 24), F('type', 32, 8), F('q', 40, 8),
    F('width', 48, 8), F('height', 56, 8)], init={})
# RFC 5371 JPEG 2000 payload header
FORMATS['jpeg2000'] = dict(len=8, fields=[
    F('tp', 0, 2), F('mhf', 2, 2), F('mh_id', 4, 3), F('t', 7, 1), F('priority', 8, 8),
    F('tile_number', 16, 16), R('reserved', 32, 8), F('fragment_offset', 40, 24)], init={})

# CRF (clause 10)
FORMATS['crf'] = dict(len=20, fields=[
    F('subtype', 0, 8), F('sv', 8, 1), F('version', 9, 3), F('mr', 12, 1), R('reserved', 13, 1),
    F('fs', 14, 1), F('tu', 15, 1), F('sequence_num', 16, 8), F('type', 24, 8),
    F('stream_id', 32, 64), F('pull', 96, 3), F('base_frequency', 99, 29),
    F('crf_data_length', 128, 16), F('timestamp_interval', 144, 16)],
    init={'subtype': 0x04, 'sv': 1})

# RVF (1722-2016 clause 11?) stream header + 8-byte raw video header
FORMATS['rvf'] = dict(len=32, fields=_stream_q0() + _stream_id_ts() + [
    F('active_pixels', 128, 16), F('total_lines', 144, 16),
    F('stream_data_length', 160, 16), F('ap', 176, 1), R('reserved_3', 177, 1), F('f', 178, 1),
    F('ef', 179, 1), F('evt', 180, 4), F('pd', 184, 1), F('i', 185, 1), R('reserved_4', 186, 6),
    R('reserved_5', 192, 8), F('pixel_depth', 200, 4), F('pixel_format', 204, 4),
    F('frame_rate', 208, 8), F('colorspace', 216, 4), F('num_lines', 220, 4),
    R('reserved_6', 224, 8), F('i_seq_num', 232, 8), F('line_number', 240, 16)],
    init={'subtype': 0x07, 'sv': 1})

# TSCF (clause 9.2)
FORMATS['tscf'] = dict(len=24, fields=_stream_q0() + _stream_id_ts() + [
    R('reserved_3', 128, 32), F('stream_data_length', 160, 16), R('reserved_4', 176, 16)],
    init={'subtype': 0x05, 'sv': 1})

# NTSCF (clause 9.3)
FORMATS['ntscf'] = dict(len=12, fields=[
    F('subtype', 0, 8), F('sv', 8, 1), F('version', 9, 3), R('reserved', 12, 1),
    F('ntscf_data_length', 13, 11), F('sequence_num', 24, 8), F('stream_id', 32, 64)],
    init={'subtype': 0x82, 'sv': 1})

# ACF common (clause 9.4.1)
FORMATS['acf_common'] = dict(len=4, fields=_acf_common() + [R('msg_specific', 16, 16)],
                             init=None)

FORMATS['flexray'] = dict(len=16, fields=_acf_common() + [
    F('pad', 16, 2), F('mtv', 18, 1), F('fr_bus_id', 19, 5), R('reserved', 24, 2),
    F('chan', 26, 2), F('str', 28, 1), F('syn', 29, 1), F('pre', 30, 1), F('nfi', 31, 1),
    F('message_timestamp', 32, 64), F('fr_frame_id', 96, 11), R('reserved_2', 107, 15),
    F('cycle', 122, 6)], init={'acf_msg_type': 0})

FORMATS['can'] = dict(len=16, fields=_acf_common() + [
    F('pad', 16, 2), F('mtv', 18, 1), F('rtr', 19, 1), F('eff', 20, 1), F('brs', 21, 1),
    F('fdf', 22, 1), F('esi', 23, 1), R('reserved', 24, 3), F('can_bus_id', 27, 5),
    F('message_timestamp', 32, 64), R('reserved_2', 96, 3), F('can_identifier', 99, 29)],
    init={'acf_msg_type': 1})

FORMATS['can_brief'] = dict(len=8, fields=_acf_common() + [
    F('pad', 16, 2), F('mtv', 18, 1), F('rtr', 19, 1), F('eff', 20, 1), F('brs', 21, 1),
    F('fdf', 22, 1), F('esi', 23, 1), R('reserved', 24, 3), F('can_bus_id', 27, 5),
    R('reserved_2', 32, 3), F('can_identifier', 35, 29)],
    init={'acf_msg_type': 2})

FORMATS['lin'] = dict(len=12, fields=_acf_common() + [
    F('pad', 16, 2), F('mtv', 18, 1), F('lin_bus_id', 19, 5), F('lin_identifier', 24, 8),
    F('message_timestamp', 32, 64)], init={'acf_msg_type': 3})

FORMATS['most'] = dict(len=20, fields=_acf_common() + [
    F('pad', 16, 2), F('mtv', 18, 1), F('most_net_id', 19, 5), R('reserved', 24, 8),
    F('message_timestamp', 32, 64), F('device_id', 96, 16), F('fblock_id', 112, 8),
    F('inst_id', 120, 8), F('func_id', 128, 12), F('op_type', 140, 4),
    R('reserved_2', 144, 16)], init={'acf_msg_type': 4})

FORMATS['gpc'] = dict(len=8, fields=_acf_common() + [F('gpc_msg_id', 16, 48)],
                      init={'acf_msg_type': 5})

FORMATS['sensor'] = dict(len=12, fields=_acf_common() + [
    F('mtv', 16, 1), F('num_sensor', 17, 7), F('sz', 24, 2), F('sensor_group', 26, 6),
    F('message_timestamp', 32, 64)], init={'acf_msg_type': 8})

FORMATS['sensor_brief'] = dict(len=4, fields=_acf_common() + [
    F('mtv', 16, 1), F('num_sensor', 17, 7), F('sz', 24, 2), F('sensor_group', 26, 6)],
    init={'acf_msg_type': 9})

# ACF-VSS (acf-vss.md): fixed header 12 bytes; brief variant has no timestamp.
FORMATS['vss'] = dict(len=12, fields=_acf_common() + [
    F('pad', 16, 2), F('mtv', 18, 1), F('addr_mode', 19, 2), F('vss_op', 21, 3),
    F('vss_datatype', 24, 8), F('msg_timestamp', 32, 64)], init={'acf_msg_type': 0x42})

FORMATS['vss_brief'] = dict(len=4, fields=_acf_common() + [
    F('pad', 16, 2), F('mtv', 18, 1), F('addr_mode', 19, 2), F('vss_op', 21, 3),
    F('vss_datatype', 24, 8)], init={'acf_msg_type': 0x43})

ACF_MSG_FORMATS = ['flexray', 'can', 'can_brief', 'lin', 'most', 'gpc', 'sensor',
                   'sensor_brief', 'vss', 'vss_brief']
STREAM_FORMATS = ['tscf', 'aaf', 'pcm', 'cvf', 'rvf']

# ---- C17 sharing groups: exactly the ones the property names --------------------------
# (view, field-name-in-that-view) lists; all members of a group denote the same wire bits
SHARE_GROUPS = []
for _f in ('subtype', 'version'):
    SHARE_GROUPS.append([('common', _f)] + [(v, _f) for v in
                        ('aaf', 'pcm', 'cvf', 'crf', 'rvf', 'tscf', 'ntscf')])
SHARE_GROUPS.append([('common', 'h')] + [(v, 'sv') for v in
                    ('aaf', 'pcm', 'cvf', 'crf', 'rvf', 'tscf', 'ntscf')])
for _f in ('mr', 'tv', 'sequence_num', 'tu', 'stream_id', 'avtp_timestamp',
           'stream_data_length'):
    SHARE_GROUPS.append([(v, _f) for v in STREAM_FORMATS])
for _f in ('format', 'sp', 'evt'):
    SHARE_GROUPS.append([('aaf', _f), ('pcm', _f)])
for _f in ('acf_msg_type', 'acf_msg_length'):
    SHARE_GROUPS.append([('acf_common', _f)] + [(v, _f) for v in ACF_MSG_FORMATS])

# ---- C12: legacy field names -> the wire field they must designate ---------------------
# (legacy macro name, format, oracle field)
LEGACY_NAMES = [
    ('AVTP_FIELD_SUBTYPE', 'common', 'subtype'),
    ('AVTP_FIELD_VERSION', 'common', 'version'),
    ('AVTP_AAF_FIELD_SV', 'pcm', 'sv'),
    ('AVTP_AAF_FIELD_MR', 'pcm', 'mr'),
    ('AVTP_AAF_FIELD_TV', 'pcm', 'tv'),
    ('AVTP_AAF_FIELD_SEQ_NUM', 'pcm', 'sequence_num'),
    ('AVTP_AAF_FIELD_TU', 'pcm', 'tu'),
    ('AVTP_AAF_FIELD_STREAM_ID', 'pcm', 'stream_id'),
    ('AVTP_AAF_FIELD_TIMESTAMP', 'pcm', 'avtp_timestamp'),
    ('AVTP_AAF_FIELD_STREAM_DATA_LEN', 'pcm', 'stream_data_length'),
    ('AVTP_AAF_FIELD_FORMAT', 'pcm', 'format'),
    ('AVTP_AAF_FIELD_NSR', 'pcm', 'nsr'),
    ('AVTP_AAF_FIELD_CHAN_PER_FRAME', 'pcm', 'channels_per_frame'),
    ('AVTP_AAF_FIELD_BIT_DEPTH', 'pcm', 'bit_depth'),
    ('AVTP_AAF_FIELD_SP', 'pcm', 'sp'),
    ('AVTP_AAF_FIELD_EVT', 'pcm', 'evt'),
    ('AVTP_CRF_FIELD_SEQ_NUM', 'crf', 'sequence_num'),
    ('AVTP_CRF_FIELD_BASE_FREQ', 'crf', 'base_frequency'),
    ('AVTP_CRF_FIELD_CRF_DATA_LEN', 'crf', 'crf_data_length'),
    ('AVTP_RVF_FIELD_SEQ_NUM', 'rvf', 'sequence_num'),
    ('AVTP_RVF_FIELD_TIMESTAMP', 'rvf', 'avtp_timestamp'),
    ('AVTP_RVF_FIELD_STREAM_DATA_LEN', 'rvf', 'stream_data_length'),
    ('AVTP_RVF_FIELD_RAW_PIXEL_DEPTH', 'rvf', 'pixel_depth'),
    ('AVTP_RVF_FIELD_RAW_PIXEL_FORMAT', 'rvf', 'pixel_format'),
    ('AVTP_RVF_FIELD_RAW_FRAME_RATE', 'rvf', 'frame_rate'),
    ('AVTP_RVF_FIELD_RAW_COLORSPACE', 'rvf', 'colorspace'),
    ('AVTP_RVF_FIELD_RAW_NUM_LINES', 'rvf', 'num_lines'),
    ('AVTP_RVF_FIELD_RAW_I_SEQ_NUM', 'rvf', 'i_seq_num'),
    ('AVTP_RVF_FIELD_RAW_LINE_NUMBER', 'rvf', 'line_number'),
]

# legacy struct overlays: (struct tag, size, payload member, payload offset)
LEGACY_STRUCTS = [
    ('struct avtp_common_pdu', 4, 'pdu_specific', 4),
    ('struct avtp_stream_pdu', 24, 'avtp_payload', 24),
    ('struct avtp_crf_pdu', 20, 'crf_data', 20),
]

# ---- VSS datatypes (acf-vss.md): code -> (name, element size in bytes, kind) ------------
# kind: 'scalar' (fixed size, big endian), 'bytes' (16-bit BE byte-length prefix + bytes),
#       'array' (16-bit BE byte-length prefix + elements, each big endian)
VSS_TYPES = {
    0x00: ('uint8', 1, 'scalar'), 0x01: ('int8', 1, 'scalar'),
    0x02: ('uint16', 2, 'scalar'), 0x03: ('int16', 2, 'scalar'),
    0x04: ('uint32', 4, 'scalar'), 0x05: ('int32', 4, 'scalar'),
    0x06: ('uint64', 8, 'scalar'), 0x07: ('int64', 8, 'scalar'),
    0x08: ('bool', 1, 'scalar'), 0x09: ('float', 4, 'scalar'), 0x0A: ('double', 8, 'scalar'),
    0x0B: ('string', 1, 'bytes'),
    0x80: ('uint8_array', 1, 'bytes'), 0x81: ('int8_array', 1, 'bytes'),
    0x82: ('uint16_array', 2, 'array'), 0x83: ('int16_array', 2, 'array'),
    0x84: ('uint32_array', 4, 'array'), 0x85: ('int32_array', 4, 'array'),
    0x86: ('uint64_array', 8, 'array'), 0x87: ('int64_array', 8, 'array'),
    0x88: ('bool_array', 1, 'bytes'), 0x89: ('float_array', 4, 'array'),
    0x8A: ('double_array', 8, 'array'), 0x8B: ('string_array', 1, 'bytes'),
}
VSS_ADDR_INTEROP = 0   # path = 16-bit BE length + bytes
VSS_ADDR_STATIC = 1    # path = 32-bit BE static id
VSS_ADDR_RESERVED = (2, 3)

# ---- ACF maximum: 9-bit quadlet count ---------------------------------------------------
ACF_MAX_QUADLETS = 511
ACF_MAX_BYTES = 511 * 4


def field(fmt, name):
    for f in FORMATS[fmt]['fields']:
        if f['name'] == name:
            return f
    raise KeyError((fmt, name))


def canonical_image(fmt):
    """bytes an initialiser must leave: all zero except the mandated constants"""
    spec = FORMATS[fmt]
    img = bytearray(spec['len'])
    for name, val in (spec['init'] or {}).items():
        f = field(fmt, name)
        assert val < (1 << f['width'])
        for i in range(f['width']):
            bit = (val >> (f['width'] - 1 - i)) & 1
            p = f['off'] + i
            if bit:
                img[p >> 3] |= 0x80 >> (p & 7)
    return bytes(img)


def hygiene():
    """oracle self-consistency; raises AssertionError on a broken oracle"""
    for k, spec in FORMATS.items():
        assert spec['len'] % 4 == 0, k
        cover = [0] * (spec['len'] * 8)
        names = set()
        for f in spec['fields']:
            assert f['name'] not in names, (k, f['name'])
            names.add(f['name'])
            assert 0 < f['width'] <= 64, (k, f)
            assert f['off'] + f['width'] <= spec['len'] * 8, (k, f)
            for b in range(f['off'], f['off'] + f['width']):
                assert cover[b] == 0, (k, f, 'overlap at bit', b)
                cover[b] = 1
        assert all(cover), (k, 'fields+reserved do not tile the header',
                            [i for i, c in enumerate(cover) if not c][:8])
    for g in SHARE_GROUPS:
        offs = {(field(v, n)['off'], field(v, n)['width']) for v, n in g}
        assert len(offs) == 1, g
    for _, fmt, name in LEGACY_NAMES:
        field(fmt, name)
    # acf-vss.md example vectors
    assert vss_ref_path_interop(b"Vehicle.Speed")[:2] == bytes([0, 13])
    assert vss_ref_value(0x82, [0, 1, 2, 3, 4, 5]) == bytes.fromhex(
        '000C000000010002000300040005')
    assert vss_ref_value(0x8B, ["VSS".encode(), "\u2764\ufe0f".encode(), b"IEEE1722"]) == \
        bytes.fromhex('0017' '0003565353' '0006E29DA4EFB88F' '00084945454531373232')
    return True


# ---- python reference encoder (used for hygiene and for validating the C reference) ----
def vss_ref_path_interop(p):
    return len(p).to_bytes(2, 'big') + bytes(p)


def vss_ref_path_static(i):
    return int(i).to_bytes(4, 'big')


def vss_ref_value(code, v):
    name, size, kind = VSS_TYPES[code]
    if kind == 'scalar':
        return int(v).to_bytes(size, 'big')       # raw bit pattern for float/double
    if name == 'string_array':
        body = b''.join(len(s).to_bytes(2, 'big') + bytes(s) for s in v)
        return len(body).to_bytes(2, 'big') + body
    if kind == 'bytes':
        return len(v).to_bytes(2, 'big') + bytes(v)
    body = b''.join(int(e).to_bytes(size, 'big') for e in v)
    return len(body).to_bytes(2, 'big') + body


if __name__ == '__main__':
    hygiene()
    n = sum(len(s['fields']) for s in FORMATS.values())
    print('oracle ok:', len(FORMATS), 'formats,', n, 'ranges')
