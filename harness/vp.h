/* Common harness runtime: the same harness source is (a) compiled by goto-cc and decided
 * by CBMC, (b) compiled natively by gcc + ASan/UBSan to replay a counterexample.
 * Nothing in here comes from /repo. */
#ifndef VP_H
#define VP_H
#include <stdint.h>
#include <stddef.h>
#include <string.h>
#include <stdlib.h>

#ifdef __CPROVER__
#define VP_ASSERT(c, msg) __CPROVER_assert((c), msg)
#define VP_ASSUME(c) __CPROVER_assume(c)
/* reachability witness: must come back FAILED, otherwise the harness is vacuous */
#define VP_REACH(label) __CPROVER_assert(0, "VP_WITNESS " label)
#ifdef VP_CONCRETE_INPUT   /* concrete re-execution of a recorded counterexample */
#include "vp_replay_in.h"
#define VP_INPUT(T, in) T in = (T) VP_REPLAY_INIT
#else
#define VP_INPUT(T, in) T nondet_##T##_fn(void); T in = nondet_##T##_fn()
#endif
#define VP_PRINT(...) ((void)0)
#else
#include <stdio.h>
#include <unistd.h>
#include <sys/syscall.h>
static int vp_replay_failures;
/* harnesses of the example programs replace fprintf/write by stubs: report through the raw syscall */
static void vp_emit(const char *tag, const char *msg)
{
    char b[600];
    int n = snprintf(b, sizeof b, "%s%s\n", tag, msg);
    if (n > (int)sizeof b) n = (int)sizeof b;
    if (n > 0) syscall(SYS_write, 2, b, (size_t)n);
}
/* a failed assertion is recorded and the run continues, so that the report names exactly the
 * obligations that fail on this input (the engine matches them against the solver's claim) */
#define VP_ASSERT(c, msg) do { if (!(c)) { vp_emit("VP_REPLAY_FAIL: ", msg); vp_replay_failures++; } } while (0)
#define VP_ASSUME(c) do { if (!(c)) { vp_emit("VP_REPLAY_VOID: assumption not met: ", #c); _exit(3); } } while (0)
#define VP_REACH(label) ((void)0)
#include "vp_replay_in.h"
#define VP_INPUT(T, in) T in = (T) VP_REPLAY_INIT
#define VP_PRINT(...) fprintf(stderr, __VA_ARGS__)
#ifndef VP_ENTRY_FN
#define VP_ENTRY_FN harness
#endif
void VP_ENTRY_FN(void);
#ifndef VP_NO_MAIN
int main(void) { VP_ENTRY_FN(); vp_emit("VP_REPLAY_DONE ", vp_replay_failures ? "with failures" : "no failures");
                 return vp_replay_failures ? 1 : 0; }
#endif
#endif

/* exact-extent object: its own allocation of exactly n bytes, so that any access outside it
 * fails a CBMC pointer check / an ASan check in the replay.  Allocation failure is out of
 * scope for every property (stated in DESIGN.md). */
static inline uint8_t *vp_obj(size_t n)
{
    uint8_t *p = (uint8_t *)malloc(n ? n : 1);
#ifdef __CPROVER__
    __CPROVER_assume(p != 0);
#else
    if (!p) _exit(4);
#endif
    return p;
}
/* the PDU / message object: a byte array, so the library may assume byte alignment only.
 * In a C15 replay (native, -fsanitize=alignment) it starts VP_MISALIGN bytes past a 16-byte boundary */
#if defined(VP_MISALIGN) && !defined(__CPROVER__)
static inline uint8_t *vp_pdu(size_t n)
{
    uint8_t *q = (uint8_t *)aligned_alloc(16, ((n + 16 + VP_MISALIGN) + 15) / 16 * 16);
    if (!q) _exit(4);
    return q + VP_MISALIGN;
}
#define free(p) ((void)(p))
#else
#define vp_pdu vp_obj
#endif
static inline uint8_t *vp_pdu_from(const uint8_t *src, size_t n)
{
    uint8_t *p = vp_pdu(n);
    for (size_t i = 0; i < n; i++) p[i] = src[i];
    return p;
}
/* PDU of n bytes placed at byte offset k (0..7) inside its own object of n + 8 bytes */
static inline uint8_t *vp_place(const uint8_t *src, size_t n, unsigned k)
{
    uint8_t *p = vp_pdu(n + 8);
    for (size_t i = 0; i < n + 8; i++) p[i] = 0;
    for (size_t i = 0; i < n; i++) p[k + i] = src[i];
    return p + k;
}
static inline uint8_t *vp_obj_from(const uint8_t *src, size_t n)
{
    uint8_t *p = vp_obj(n);
    for (size_t i = 0; i < n; i++) p[i] = src[i];
    return p;
}

/* ---- the wire oracle in C: only indexes bytes ---------------------------------------- */
/* bit b of a byte string, bit 0 = most significant bit of byte 0 */
static inline unsigned spec_bit(const uint8_t *bytes, unsigned b)
{
    return (bytes[b >> 3] >> (7u - (b & 7u))) & 1u;
}
/* the `width` bits starting at absolute bit `bitoff`, most significant first */
static inline uint64_t spec_get(const uint8_t *bytes, unsigned bitoff, unsigned width)
{
    uint64_t r = 0;
    for (unsigned i = 0; i < width; i++)
        r = (r << 1) | spec_bit(bytes, bitoff + i);
    return r;
}
/* reference writer: store v mod 2^width into exactly those bits */
static inline void spec_put(uint8_t *bytes, unsigned bitoff, unsigned width, uint64_t v)
{
    for (unsigned i = 0; i < width; i++) {
        unsigned b = bitoff + i;
        unsigned bit = (unsigned)((v >> (width - 1u - i)) & 1u);
        uint8_t m = (uint8_t)(0x80u >> (b & 7u));
        if (bit) bytes[b >> 3] |= m; else bytes[b >> 3] &= (uint8_t)~m;
    }
}
static inline uint64_t spec_mask(unsigned width)
{
    return width >= 64 ? ~(uint64_t)0 : (((uint64_t)1 << width) - 1u);
}
static inline int vp_bytes_eq(const uint8_t *a, const uint8_t *b, size_t n)
{
    int eq = 1;
    for (size_t i = 0; i < n; i++) if (a[i] != b[i]) eq = 0;
    return eq;
}
#endif
