"""
Job runner: goto-cc -> cbmc (--json-ui) -> triage -> trace -> native replay.
Everything is rebuilt from /repo's current working tree on every run.
"""
import concurrent.futures as cf
import hashlib
import json
import os
import re
import resource
import shutil
import subprocess
import sys
import tempfile
import time

VERIF = os.path.dirname(os.path.dirname(os.path.abspath(__file__)))
REPO = os.environ.get('VP_REPO', '/repo')
HARNESS_DIR = os.path.join(VERIF, 'harness')
REPLAY_DIR = os.path.join(VERIF, 'replay')
NCPU = int(os.environ.get('VP_JOBS', '16'))

CBMC_FLAGS = ['--unwinding-assertions', '--pointer-overflow-check', '--undefined-shift-check',
              '--signed-overflow-check', '--bounds-check', '--pointer-check',
              '--drop-unused-functions', '--no-malloc-may-fail', '--json-ui']

BE_FLAGS = ['--big-endian', '-U__BYTE_ORDER__', '-D__BYTE_ORDER__=__ORDER_BIG_ENDIAN__']


class Job:
    def __init__(self, name, harness, sources=(), entry='harness', be=False, unwind=70,
                 unwindset=None, defines=(), incs=(), timeout=900, mem_gb=12, object_bits=None,
                 extra=(), meta=None, expect_witness=True, replayable=True, group=None,
                 extra_files=None, nondet_static=False, backend=None, extra_sources=None,
                 loop_policy=None, be_mix=None, dfcc=None):
        self.name = name              # unique within a check run
        self.harness = harness        # C source text
        self.sources = list(sources)  # paths relative to REPO (or absolute)
        self.entry = entry
        self.be = be
        self.unwind = unwind
        self.unwindset = dict(unwindset or {})
        self.defines = list(defines)
        self.incs = list(incs)
        self.timeout = timeout
        self.mem_gb = mem_gb
        self.object_bits = object_bits or 12
        self.extra = list(extra)
        self.meta = dict(meta or {})  # bounds etc. for evidence
        self.expect_witness = expect_witness
        self.replayable = replayable
        self.group = group or name
        self.extra_files = dict(extra_files or {})   # name -> text, written next to harness
        self.nondet_static = nondet_static
        self.dfcc = dfcc       # None | name of the function whose (empty) assigns contract is enforced
        self.be_mix = be_mix   # None | 'model-only' | 'macros-only' (sanity twins of C14)
        self.loop_policy = loop_policy   # callable(list of loop dicts) -> {loop id: bound}
        self.extra_sources = dict(extra_sources or {})   # name -> C text, compiled with the harness
        self.backend = backend or os.environ.get('VP_BACKEND') or None  # None | 'cadical' | 'kissat' | 'z3' | 'cvc5'


class Prop:
    __slots__ = ('pid', 'status', 'desc', 'func', 'file', 'line', 'kind')

    def __init__(self, r):
        self.pid = r['property']
        self.status = r['status']
        self.desc = r.get('description', '')
        sl = r.get('sourceLocation', {}) or {}
        self.func = sl.get('function', '')
        self.file = sl.get('file', '')
        self.line = sl.get('line', '')
        if self.desc.startswith('VP_WITNESS'):
            self.kind = 'witness'
        elif '.unwind.' in self.pid or self.desc.startswith('unwinding assertion'):
            self.kind = 'unwind'
        elif '.assertion.' in self.pid and self.func != 'malloc':
            self.kind = 'assert'
        elif self.pid.startswith('malloc.') or self.pid.startswith('free.'):
            self.kind = 'libc-model'
        else:
            self.kind = 'safety'

    def key(self):
        """stable identification of WHAT fails (no line numbers): function + check class + text"""
        return '%s|%s|%s' % (self.func, self.kind, self.desc)

    def as_dict(self):
        return {'property': self.pid, 'status': self.status, 'description': self.desc,
                'function': self.func, 'file': os.path.basename(self.file), 'line': self.line}


class JobResult:
    def __init__(self, job):
        self.job = job
        self.status = 'error'     # pass | fail | inconclusive | error
        self.reason = ''
        self.props = []
        self.failed = []          # Props that failed and are not witnesses
        self.witness_total = 0
        self.witness_reached = 0
        self.wall = 0.0
        self.solver_s = 0.0
        self.rss_mb = 0
        self.functions = []
        self.cmd = ''
        self.workdir = None
        self.messages = []

    @property
    def obligations(self):
        return sum(1 for p in self.props if p.kind not in ('witness',))

    @property
    def discharged(self):
        return sum(1 for p in self.props if p.kind != 'witness' and p.status == 'SUCCESS')


def _src_path(s):
    return s if os.path.isabs(s) else os.path.join(REPO, s)


def _limits(mem_gb):
    def f():
        if mem_gb:
            b = int(mem_gb * (1 << 30))
            try:
                resource.setrlimit(resource.RLIMIT_AS, (b, b))
            except Exception:
                pass
        os.setsid()
    return f


def run_cmd(cmd, timeout, mem_gb=12, cwd=None, env=None):
    """returns (rc, stdout, stderr, wall, maxrss_mb); rc = -9 on timeout"""
    t0 = time.time()
    try:
        p = subprocess.Popen(cmd, stdout=subprocess.PIPE, stderr=subprocess.PIPE, cwd=cwd,
                             preexec_fn=_limits(mem_gb), env=env)
    except OSError as e:
        return (127, b'', str(e).encode(), 0.0, 0)
    try:
        out, err = p.communicate(timeout=timeout)
        rc = p.returncode
    except subprocess.TimeoutExpired:
        try:
            os.killpg(p.pid, 9)
        except Exception:
            p.kill()
        out, err = p.communicate()
        rc = -9
    wall = time.time() - t0
    try:
        rss = resource.getrusage(resource.RUSAGE_CHILDREN).ru_maxrss // 1024
    except Exception:
        rss = 0
    return (rc, out, err, wall, rss)


def compile_goto(job, wd):
    hp = os.path.join(wd, 'harness.c')
    with open(hp, 'w') as f:
        f.write(job.harness)
    for n, t in list(job.extra_files.items()) + list(job.extra_sources.items()):
        with open(os.path.join(wd, n), 'w') as f:
            f.write(t)
    gb = os.path.join(wd, 'h.gb')
    cmd = ['goto-cc', '-std=gnu99', '-D__CPROVER__', '-I' + HARNESS_DIR, '-I' + os.path.join(REPO, 'include'),
           '-I' + wd]
    cmd += ['-I' + (i if os.path.isabs(i) else os.path.join(REPO, i)) for i in job.incs]
    cmd += ['-D' + d for d in job.defines]
    if job.be_mix == 'model-only':
        cmd += BE_FLAGS[:1]
    elif job.be_mix == 'macros-only':
        cmd += BE_FLAGS[1:]
    elif job.be:
        cmd += BE_FLAGS
    if job.dfcc:
        cmd += ['--function', job.entry]
    cmd += [hp] + [os.path.join(wd, n) for n in job.extra_sources] + [_src_path(s) for s in job.sources] + ['-o', gb]
    rc, out, err, wall, rss = run_cmd(cmd, 300, 8, cwd=wd)
    if rc == 0 and job.dfcc:
        # dynamic frame condition checking: every assignment reachable from job.dfcc is checked against its
        # (empty) assigns clause by goto-instrument's instrumentation
        gb2 = os.path.join(wd, 'h.dfcc.gb')
        rc, out2, err2, wall, rss = run_cmd(['goto-instrument', '--dfcc', job.entry, '--enforce-contract', job.dfcc, gb, gb2],
                                            300, 8, cwd=wd)
        out, err = out + out2, err + err2
        if rc == 0:
            os.replace(gb2, gb)
    return rc, (out + err).decode(errors='replace'), gb, cmd


def cbmc_cmd(job, gb, trace_prop=None):
    cmd = ['cbmc', gb] + ([] if job.dfcc else ['--function', job.entry]) + [f for f in CBMC_FLAGS if not (job.dfcc and f == '--drop-unused-functions')]
    if job.unwind:
        cmd += ['--unwind', str(job.unwind)]
    if job.unwindset:
        cmd += ['--unwindset', ','.join('%s:%d' % kv for kv in sorted(job.unwindset.items()))]
    if job.object_bits:
        cmd += ['--object-bits', str(job.object_bits)]
    if job.nondet_static:
        cmd += ['--nondet-static']
    if job.backend == 'cadical':
        cmd += ['--sat-solver', 'cadical']
    elif job.backend == 'kissat':
        cmd += ['--external-sat-solver', 'kissat']
    elif job.backend == 'z3':
        cmd += ['--z3']
    elif job.backend == 'cvc5':
        cmd += ['--cvc5']
    cmd += job.extra
    if trace_prop:
        cmd += ['--trace', '--property', trace_prop]
    return cmd


def show_loops(gb, wd):
    """[{id, file, line, function}] of the goto binary (cbmc --show-loops)"""
    rc, out, err, wall, rss = run_cmd(['cbmc', gb, '--show-loops'], 120, 8, cwd=wd)
    loops = []
    cur = None
    for line in out.decode(errors='replace').splitlines():
        m = re.match(r'Loop (\S+):', line)
        if m:
            cur = {'id': m.group(1), 'file': '', 'line': 0, 'function': ''}
            loops.append(cur)
            continue
        m = re.match(r'\s+file (\S+) line (\d+) function (\S+)', line)
        if m and cur is not None:
            cur['file'], cur['line'], cur['function'] = m.group(1), int(m.group(2)), m.group(3)
    return loops


def case_label_of(path, line):
    """the `case X:` label that textually precedes `line` in a source file (or None)"""
    try:
        src = open(path).read().splitlines()
    except OSError:
        return None
    for i in range(min(line, len(src)) - 1, -1, -1):
        m = re.match(r'\s*case\s+(\w+)\s*:', src[i])
        if m:
            return m.group(1)
        if re.match(r'\s*switch\s*\(', src[i]):
            return None
    return None


def parse_cbmc_json(text):
    """returns (props, messages, solver_seconds, ok)"""
    try:
        data = json.loads(text)
    except Exception:
        # truncated output (timeout / crash): try to salvage nothing
        return None, [], 0.0, False
    props, msgs, solver = None, [], 0.0
    for e in data:
        if not isinstance(e, dict):
            continue
        if 'result' in e:
            props = e['result']
        if 'messageText' in e:
            t = e['messageText']
            m = re.search(r'Runtime (?:decision procedure|Solver): ([0-9.]+)s', t)
            if m:
                solver += float(m.group(1))
            if e.get('messageType') in ('ERROR', 'WARNING'):
                msgs.append(t)
    return props, msgs, solver, props is not None


def run_job(job, scratch):
    res = JobResult(job)
    t0 = time.time()
    wd = os.path.join(scratch, re.sub(r'[^A-Za-z0-9_.-]', '_', job.name))
    os.makedirs(wd, exist_ok=True)
    res.workdir = wd
    rc, log, gb, ccmd = compile_goto(job, wd)
    if rc != 0:
        res.status = 'error'
        res.reason = 'goto-cc failed: ' + log[-1500:]
        res.wall = time.time() - t0
        return res
    if job.loop_policy:
        try:
            job.unwindset.update(job.loop_policy(show_loops(gb, wd)))
        except Exception as e:
            res.status = 'error'
            res.reason = 'loop policy failed: %r' % (e,)
            res.wall = time.time() - t0
            return res
    cmd = cbmc_cmd(job, gb)
    res.cmd = ' '.join(cmd)
    rc, out, err, wall, rss = run_cmd(cmd, job.timeout, job.mem_gb, cwd=wd)
    res.rss_mb = rss
    if rc == -9:
        res.status = 'inconclusive'
        res.reason = ('timeout after %ds' % job.timeout) if wall >= job.timeout - 1 else \
            'cbmc was killed after %.0fs (out of memory?)' % wall
        res.wall = time.time() - t0
        return res
    props, msgs, solver, ok = parse_cbmc_json(out.decode(errors='replace'))
    res.messages = msgs
    res.solver_s = solver
    if not ok:
        res.status = 'inconclusive'
        tail = (out[-800:] + err[-800:]).decode(errors='replace')
        res.reason = 'cbmc gave no result (rc=%s; out of memory or tool error): %s' % (rc, tail)
        res.wall = time.time() - t0
        return res
    res.props = [Prop(p) for p in props]
    wit = [p for p in res.props if p.kind == 'witness']
    res.witness_total = len(wit)
    res.witness_reached = sum(1 for p in wit if p.status == 'FAILURE')
    res.failed = [p for p in res.props if p.kind != 'witness' and p.status == 'FAILURE']
    undecided = [p for p in res.props if p.status not in ('SUCCESS', 'FAILURE')]
    res.functions = sorted({p.func for p in res.props if p.func})
    real_fail = [p for p in res.failed if p.kind != 'unwind']
    if undecided and not real_fail:
        res.status = 'inconclusive'
        res.reason = '%d obligations left undecided by the solver (%s): %s' % (
            len(undecided), ', '.join(sorted({p.status for p in undecided})), '; '.join(msgs[:2]))
    elif undecided:
        # a FAILURE is a satisfiable query with a model: sound whatever happened to the other obligations;
        # it still has to survive the native replay before it is reported
        res.status = 'fail'
        res.reason = '%d further obligations left undecided by the solver (%s)' % (
            len(undecided), ', '.join(sorted({p.status for p in undecided})))
    elif job.expect_witness and (res.witness_total == 0 or res.witness_reached < res.witness_total):
        res.status = 'inconclusive'
        missing = [p.desc for p in wit if p.status != 'FAILURE']
        res.reason = 'vacuous harness: witness not reachable: %s' % (missing or 'no witness')
    elif any(p.kind == 'unwind' for p in res.failed):
        res.status = 'inconclusive'
        res.reason = 'unwinding bound too small: ' + ', '.join(
            p.pid for p in res.failed if p.kind == 'unwind')
    elif res.failed:
        res.status = 'fail'
    else:
        res.status = 'pass'
    res.wall = time.time() - t0
    return res


MEM_BUDGET_GB = int(os.environ.get('VP_MEM_GB', '52'))


def run_jobs(jobs, scratch, progress=True):
    """runs jobs on NCPU workers; the sum of the memory limits of concurrently running jobs stays
    below MEM_BUDGET_GB (a job's limit is an upper bound it rarely reaches, so limits <= 12 GB count as 3)"""
    import threading
    results = {}
    cond = threading.Condition()
    used = [0]

    def weight(j):
        return j.mem_gb if j.mem_gb > 12 else 3

    def guarded(j):
        w = min(weight(j), MEM_BUDGET_GB)
        with cond:
            while used[0] + w > MEM_BUDGET_GB:
                cond.wait()
            used[0] += w
        try:
            return run_job(j, scratch)
        finally:
            with cond:
                used[0] -= w
                cond.notify_all()

    with cf.ThreadPoolExecutor(max_workers=NCPU) as ex:
        futs = {ex.submit(guarded, j): j for j in jobs}
        for fu in cf.as_completed(futs):
            j = futs[fu]
            try:
                r = fu.result()
            except Exception as e:   # engine bug -> inconclusive, never a violation
                r = JobResult(j)
                r.status = 'error'
                r.reason = 'engine exception: %r' % (e,)
            results[j.name] = r
            if progress:
                sys.stderr.write('[job] %-46s %-12s %6.1fs obl=%d fail=%d %s\n' % (
                    j.name, r.status, r.wall, r.obligations, len(r.failed),
                    r.reason[:160].replace('\n', ' ')))
                sys.stderr.flush()
    return [results[j.name] for j in jobs]


# ---------------------------------------------------------------------------------------
# counterexample -> C initialiser -> native replay
# ---------------------------------------------------------------------------------------
def _val_to_c(v):
    if 'members' in v:
        parts = []
        for m in v['members']:
            if m['name'].startswith('$pad'):
                continue
            parts.append('.%s = %s' % (m['name'], _val_to_c(m['value'])))
        return '{ ' + ', '.join(parts) + ' }'
    if 'elements' in v:
        return '{ ' + ', '.join(_val_to_c(e['value']) for e in v['elements']) + ' }'
    if 'binary' in v:
        b = v['binary']
        n = int(b, 2) if b else 0
        w = v.get('width', len(b))
        t = v.get('type', '')
        if v.get('name') == 'integer' and (t.startswith('signed') or t.startswith('int')
                                           or t in ('char', 'long', 'short')) and b and b[0] == '1':
            n -= (1 << w)
            return '(%d)' % n if n > -(1 << 63) else '(-9223372036854775807L-1)'
        return '0x%xULL' % n if w > 32 else '0x%xU' % n
    if v.get('name') == 'pointer':
        return '0'
    if 'data' in v:
        return str(v['data'])
    return '0'


def extract_input(trace, var='in'):
    """the value returned by nondet_<T>_fn() and assigned to the harness input struct"""
    best = None
    for s in trace:
        if s.get('stepType') != 'assignment' or 'value' not in s:
            continue
        lhs = s.get('lhs', '')
        if re.match(r'return_value_nondet_\w+_fn$', lhs) and not s.get('hidden') \
                and ('members' in s['value'] or 'elements' in s['value'] or 'binary' in s['value']):
            return s['value']
        if lhs == var and 'members' in s['value']:
            if not s.get('hidden'):
                return s['value']
            best = best or s['value']
    return best


def get_trace(job, res, prop):
    gb = os.path.join(res.workdir, 'h.gb')
    if '.unwind.' in prop.pid:
        # unwinding assertions are created during symbolic execution and cannot be selected
        # with --property: trace the whole run and pick the one we need
        cmd = cbmc_cmd(job, gb) + ['--trace']
    else:
        cmd = cbmc_cmd(job, gb, trace_prop=prop.pid)
    rc, out, err, wall, rss = run_cmd(cmd, job.timeout, job.mem_gb, cwd=res.workdir)
    if rc == -9:
        return None
    try:
        data = json.loads(out.decode(errors='replace'))
    except Exception:
        return None
    for e in data:
        if isinstance(e, dict) and 'result' in e:
            for r in e['result']:
                if r['property'] == prop.pid and r['status'] == 'FAILURE':
                    return r.get('trace')
    return None


# alignment is excluded: misaligned typed accesses are the business of C15 (the VSS codec has known ones),
# they must not "confirm" an unrelated counterexample
NATIVE_FLAGS = ['-std=gnu99', '-O0', '-g', '-fsanitize=address,undefined', '-fno-sanitize=alignment',
                '-fno-sanitize-recover=all', '-fno-omit-frame-pointer', '-w']


def write_replay(job, prop, value, tag):
    """persist a self-contained replay directory under /verif/replay; returns its path"""
    h = hashlib.sha1((job.name + prop.key() + json.dumps(value, sort_keys=True)).encode()
                     ).hexdigest()[:10]
    d = os.path.join(REPLAY_DIR, '%s-%s-%s' % (tag, re.sub(r'[^A-Za-z0-9_.-]', '_', job.name), h))
    os.makedirs(d, exist_ok=True)
    with open(os.path.join(d, 'harness.c'), 'w') as f:
        f.write(job.harness)
    for n, t in list(job.extra_files.items()) + list(job.extra_sources.items()):
        with open(os.path.join(d, n), 'w') as f:
            f.write(t)
    init = _val_to_c(value) if value is not None else '{0}'
    with open(os.path.join(d, 'vp_replay_in.h'), 'w') as f:
        f.write('/* counterexample input found by the solver for: %s */\n' % prop.desc)
        f.write('#define VP_REPLAY_INIT %s\n' % init)
    meta = {'job': job.name, 'property_failed': prop.as_dict(), 'sources': job.sources,
            'incs': job.incs, 'defines': job.defines, 'be': job.be, 'entry': job.entry,
            'unwind': job.unwind, 'unwindset': job.unwindset, 'object_bits': job.object_bits,
            'extra': job.extra, 'nondet_static': job.nondet_static, 'meta': job.meta, 'dfcc': job.dfcc,
            'extra_sources': sorted(job.extra_sources)}
    with open(os.path.join(d, 'meta.json'), 'w') as f:
        json.dump(meta, f, indent=1)
    return d


def replay_dir(d, verbose=False):
    """rebuild the replay natively against /repo's current tree and run it.
    returns (reproduced: bool|None, text).  None = cannot be replayed natively."""
    d = os.path.abspath(d)
    meta = json.load(open(os.path.join(d, 'meta.json')))
    if meta.get('be'):
        return replay_dir_cbmc(d, meta)
    exe = os.path.join(d, 'replay.bin')
    cmd = ['gcc'] + NATIVE_FLAGS + ['-DVP_REPLAY', '-I' + HARNESS_DIR,
                                    '-I' + os.path.join(REPO, 'include'), '-I' + d]
    cmd += ['-I' + (i if os.path.isabs(i) else os.path.join(REPO, i)) for i in meta['incs']]
    cmd += ['-D' + x for x in meta['defines']]
    cmd += ['-DVP_ENTRY_FN=' + meta['entry']]
    cmd += [os.path.join(d, 'harness.c')] + [os.path.join(d, n) for n in meta.get('extra_sources', [])]
    cmd += [_src_path(s) for s in meta['sources']]
    cmd += ['-o', exe, '-lm']
    rc, out, err, wall, rss = run_cmd(cmd, 300, 16, cwd=d)
    if rc != 0:
        return None, 'native build failed:\n' + (out + err).decode(errors='replace')[-3000:]
    env = dict(os.environ)
    env['ASAN_OPTIONS'] = 'detect_leaks=0:abort_on_error=0:exitcode=77'
    env['UBSAN_OPTIONS'] = 'halt_on_error=1:exitcode=78:print_stacktrace=1'
    env['VP_ENTRY'] = meta['entry']
    want0 = meta.get('property_failed', {}).get('description', '')
    unbounded = 'no bound on work' in want0
    rc, out, err, wall, rss = run_cmd([exe], 20 if unbounded else 120, None, cwd=d, env=env)
    if rc == -9 and unbounded:
        try:
            os.unlink(exe)
        except OSError:
            pass
        return True, 'replay did not terminate within 20 s on this single datagram (unbounded work): ' + want0
    try:
        os.unlink(exe)
    except OSError:
        pass
    text = (out + err).decode(errors='replace')
    if rc == 3 and 'VP_REPLAY_VOID' in text:
        return False, 'replay void (assumption not met):\n' + text[-2000:]
    want = meta.get('property_failed', {}).get('description', '')
    is_assert = '.assertion.' in meta.get('property_failed', {}).get('property', '')
    sanitizer = ('ERROR: AddressSanitizer: ' in text or 'runtime error: ' in text
                 or 'VP_STUB_FAIL' in text)
    if is_assert and not sanitizer:
        genuine = ('VP_REPLAY_FAIL: ' + want) in text
    else:
        genuine = sanitizer or 'VP_REPLAY_FAIL' in text
    if rc != 0 and genuine:
        return True, 'exit %s\n%s' % (rc, text[-4000:])
    if rc != 0 and 'VP_REPLAY_FAIL' in text:
        return False, 'replay fails, but not on the obligation the solver named\n' + text[-2000:]
    if rc != 0:
        return None, 'replay run failed for a reason that is not a property failure (exit %s)\n%s' % (rc, text[-2000:])
    return False, 'replay ran to completion without failure\n' + text[-1500:]


def replay_dir_cbmc(d, meta):
    """big-endian counterexamples cannot run on this little-endian host: re-execute the
    harness with the recorded input as constants under CBMC's big-endian model."""
    j = Job(meta['job'] + '.replay', open(os.path.join(d, 'harness.c')).read(),
            sources=meta['sources'], entry=meta['entry'], be=True, unwind=meta['unwind'],
            unwindset=meta['unwindset'], defines=list(meta['defines']) + ['VP_CONCRETE_INPUT'],
            incs=meta['incs'], object_bits=meta['object_bits'], extra=meta['extra'],
            nondet_static=meta.get('nondet_static', False), expect_witness=False,
            extra_files={'vp_replay_in.h': open(os.path.join(d, 'vp_replay_in.h')).read()},
            extra_sources={n: open(os.path.join(d, n)).read() for n in meta.get('extra_sources', [])})
    sc = tempfile.mkdtemp(prefix='vp-replay-', dir='/var/tmp')
    try:
        r = run_job(j, sc)
        if r.status == 'fail':
            return True, 'concrete big-endian re-execution under CBMC fails: ' + '; '.join(
                p.desc for p in r.failed[:5])
        return False, 'concrete big-endian re-execution: %s %s' % (r.status, r.reason)
    finally:
        shutil.rmtree(sc, ignore_errors=True)


def confirm(job, res, prop, tag):
    """trace + replay one failed property.  returns dict(status=confirmed|unconfirmed|noreplay,
    path, text, input)"""
    trace = get_trace(job, res, prop)
    if trace is None:
        return {'status': 'unconfirmed', 'path': None, 'text': 'no trace obtained', 'input': None}
    value = extract_input(trace)
    d = write_replay(job, prop, value, tag)
    if not job.replayable:
        return {'status': 'noreplay', 'path': d, 'text': 'job marked not natively replayable',
                'input': value}
    ok, text = replay_dir(d)
    with open(os.path.join(d, 'replay.log'), 'w') as f:
        f.write(text)
    st = 'confirmed' if ok else ('noreplay' if ok is None else 'unconfirmed')
    return {'status': st, 'path': d, 'text': text, 'input': value}


def small_input(value, limit=400):
    """compact printable form of a counterexample for evidence/samples"""
    try:
        s = _val_to_c(value)
    except Exception:
        s = '?'
    return s if len(s) <= limit else s[:limit] + '...'
