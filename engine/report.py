"""
Check driver: runs jobs, triages failures against known-findings.txt, replays new ones,
prints the contract lines (VIOLATION / KNOWN-FINDING), writes evidence/<id>.json.
Exit status: 0 held, 1 replay-confirmed violation, 2 inconclusive (never with a VIOLATION line).
"""
import json
import os
import re
import shutil
import sys
import tempfile
import time

from . import core

KF_FILE = os.path.join(core.VERIF, 'known-findings.txt')
EVID_DIR = os.path.join(core.VERIF, 'evidence')


class Finding:
    def __init__(self, prop, fid, match, what, exclude=None):
        self.prop, self.fid, self.match, self.what, self.exclude = prop, fid, match, what, exclude
        self.rx = re.compile(match)

    def hits(self, jobname, p):
        return bool(self.rx.search('%s|%s' % (jobname, p.key())))


def load_findings():
    out = []
    if not os.path.exists(KF_FILE):
        return out
    for line in open(KF_FILE):
        line = line.strip()
        if not line or line.startswith('#') or line.startswith('fixed:'):
            continue
        m = re.match(r'finding:\s+property=(\S+)\s+id=(\S+)\s+((?:\w+=\S+\s+)*)match=/(.*)/\s+::\s+(.*)$', line)
        if m:
            attrs = dict(kv.split('=', 1) for kv in m.group(3).split())
            f = Finding(m.group(1), m.group(2), m.group(4), m.group(5), attrs.get('exclude'))
            f.attrs = attrs
            out.append(f)
        else:
            sys.stderr.write('known-findings.txt: unparsable line ignored: %s\n' % line)
    return out


def active_exclusions(prop):
    return {f.exclude for f in load_findings() if f.prop == prop and f.exclude}


class Check:
    def __init__(self, pid, tier, level='model_checking'):
        self.pid = pid
        self.tier = tier
        self.level = level
        self.seed = int(os.environ.get('VERIF_SEED', '0') or 0)
        self.t0 = time.time()
        self.scratch = tempfile.mkdtemp(prefix='vp-%s-' % pid, dir='/var/tmp')
        self.findings = [f for f in load_findings() if f.prop == pid]
        self.violations = []      # (jobname, Prop, confirm dict)
        self.known_hits = {}      # fid -> list of (jobname, Prop)
        self.inconclusive = []    # strings
        self.results = []
        self.extra_cov = {}
        self.assumptions = []
        self.notes = []
        self.uncovered = []
        self.samples = []
        self.unexplored = []
        self.max_confirm_per_job = 3
        self.max_confirm_total = 12
        self.confirm_count = 0
        self.confirmed_descs = {}   # description -> replay path (first confirmation)

    # ---------------------------------------------------------------------------------
    def run(self, jobs):
        res = core.run_jobs(jobs, self.scratch)
        self.results += res
        for r in res:
            self._triage(r)
        return res

    def _triage(self, r):
        j = r.job
        if r.status in ('inconclusive', 'error'):
            capped = ('timeout after' in r.reason or 'out of memory' in r.reason or 'was killed' in r.reason
                      or 'left undecided by the solver' in r.reason)
            if self.tier == 'thorough' and capped:
                # thorough tier: a query that hit the time / memory cap is NOT explored; it is named in the
                # evidence and on stdout, never counted as held; too many of them make the run inconclusive
                self.unexplored.append('%s: %s' % (j.name, r.reason[:200]))
                return
            self.inconclusive.append('%s: %s' % (j.name, r.reason))
            return
        if r.status == 'pass':
            return
        new = []
        for p in r.failed:
            hit = next((f for f in self.findings if f.hits(j.name, p)), None)
            if hit:
                self.known_hits.setdefault(hit.fid, []).append((j.name, p))
            else:
                new.append(p)
        if not new:
            return
        # replay: harness assertions first, then memory-safety checks
        order = sorted(new, key=lambda p: (0 if p.kind == 'assert' else 1,
                                           1 if 'pointer_arithmetic' in p.pid else 0))
        confirmed = 0
        tried = 0
        unconf = []
        for p in order:
            if p.desc in self.confirmed_descs:
                # the same obligation was already replayed in another query of this run
                confirmed += 1
                self.notes.append('%s: "%s" fails here too (same obligation already replayed: %s)'
                                  % (j.name, p.desc, self.confirmed_descs[p.desc]))
                continue
            if tried >= self.max_confirm_per_job or self.confirm_count >= self.max_confirm_total:
                break
            tried += 1
            self.confirm_count += 1
            c = core.confirm(j, r, p, self.pid)
            if c['status'] == 'confirmed':
                confirmed += 1
                self.confirmed_descs[p.desc] = c['path']
                self.violations.append((j.name, p, c))
            else:
                unconf.append((p, c))
        if confirmed == 0 and not unconf and self.confirm_count >= self.max_confirm_total:
            self.notes.append('%s: %d failing obligations not replayed (replay budget of this run used up): %s'
                              % (j.name, len(new), '; '.join(p.desc for p in new[:4])))
            if self.violations:
                return
        if confirmed == 0:
            for p, c in unconf:
                self.inconclusive.append(
                    '%s: solver counterexample for "%s" (%s) did not reproduce natively (%s): %s'
                    % (j.name, p.desc, p.pid, c['status'], (c['text'] or '')[:300].replace('\n', ' ')))
        else:
            rest = [p for p in new if all(p is not v[1] for v in self.violations)]
            if rest:
                self.notes.append('%s: %d further failing obligations not individually replayed: %s'
                                  % (j.name, len(rest), '; '.join(p.desc for p in rest[:6])))

    # ---------------------------------------------------------------------------------
    def add_inconclusive(self, text):
        self.inconclusive.append(text)

    def add_violation_external(self, what, replay_path, detail=None):
        """violation decided by a non-CBMC engine (C15 IR encoder, C20 front end)"""
        class _P:
            pass
        p = _P()
        p.desc, p.pid, p.func = what, 'external', ''
        p.as_dict = lambda: {'description': what}
        p.key = lambda: 'external|%s' % what
        self.violations.append(('external', p, {'status': 'confirmed', 'path': replay_path,
                                                'text': detail or '', 'input': None}))

    def known_external(self, what_key):
        """for non-CBMC engines: returns the Finding matching what_key, recording the hit"""
        class _P:
            def __init__(s, k):
                s.k, s.desc, s.pid = k, k, 'external'

            def key(s):
                return s.k

            def as_dict(s):
                return {'description': s.k}
        p = _P(what_key)
        for f in self.findings:
            if f.hits('external', p):
                self.known_hits.setdefault(f.fid, []).append(('external', p))
                return f
        return None

    # ---------------------------------------------------------------------------------
    def finish(self, rule, explanation, trusted, checker_cmd):
        wall = time.time() - self.t0
        obligations = sum(r.obligations for r in self.results)
        discharged = sum(r.discharged for r in self.results)
        asserts = set()
        for r in self.results:
            for p in r.props:
                if p.kind == 'assert':
                    asserts.add(p.desc)
        funcs = sorted({f for r in self.results for f in r.functions})
        queries = len(self.results)
        solver = sum(r.solver_s for r in self.results)
        samples = list(self.samples)
        for r in self.results[:400]:
            if len(samples) >= 6:
                break
            a = [p for p in r.props if p.kind == 'assert']
            if a:
                samples.append({'query': r.job.name, 'obligation': a[len(a) // 2].desc,
                                'status': a[len(a) // 2].status, 'bounds': r.job.meta,
                                'big_endian_model': r.job.be, 'wall_s': round(r.wall, 2)})
        cov = {
            'obligations': obligations + int(self.extra_cov.get('extra_obligations', 0)),
            'discharged': discharged + int(self.extra_cov.get('extra_discharged', 0)),
            'checker_cmd': checker_cmd,
            'trusted_base': trusted,
            'evaluations': max(1, queries + int(self.extra_cov.get('extra_queries', 0))),
            'distinct_nontrivial': max(len(asserts) + int(self.extra_cov.get('extra_distinct', 0)), 0),
            'rule': rule,
            'samples': samples or [{'note': 'no query ran'}],
            'explanation': explanation,
            'queries': queries,
            'queries_passed': sum(1 for r in self.results if r.status == 'pass'),
            'witness_twins_reached': sum(r.witness_reached for r in self.results),
            'witness_twins_total': sum(r.witness_total for r in self.results),
            'functions_encoded': funcs,
            'solver_time_s': round(solver, 2),
            'peak_rss_mb': max([r.rss_mb for r in self.results] + [0]),
            'configurations': sorted({'big-endian' if r.job.be else 'little-endian'
                                      for r in self.results}),
            'per_query': [{'name': r.job.name, 'status': r.status, 'wall_s': round(r.wall, 2),
                           'obligations': r.obligations, 'discharged': r.discharged,
                           'unwind': r.job.unwind, 'unwindset': r.job.unwindset,
                           'bounds': r.job.meta} for r in self.results][:600],
            'uncovered_public_names': sorted(set(self.uncovered)),
            'known_findings_hit': {k: len(v) for k, v in self.known_hits.items()},
            'inconclusive': self.inconclusive[:50],
            'unexplored_queries_cap_hit': self.unexplored[:200],
            'notes': self.notes[:50],
            'exhaustive': False,
        }
        for k, v in self.extra_cov.items():
            if not k.startswith('extra_'):
                cov[k] = v
        ev = {'property_id': self.pid, 'tier': self.tier, 'seed': self.seed, 'level': self.level,
              'coverage': cov, 'assumptions': self.assumptions, 'wall_s': round(wall, 2),
              'violations': len(self.violations)}
        os.makedirs(EVID_DIR, exist_ok=True)
        try:
            os.makedirs(core.REPLAY_DIR, exist_ok=True)
            with open(os.path.join(core.REPLAY_DIR, 'last-%s-failures.json' % self.pid), 'w') as f:
                json.dump({r.job.name: {'status': r.status, 'reason': r.reason[:2000], 'failed': [p.as_dict() for p in r.failed[:60]]}
                           for r in self.results if r.status != 'pass'}, f, indent=1)
        except Exception:
            pass
        with open(os.path.join(EVID_DIR, '%s.json' % self.pid), 'w') as f:
            json.dump(ev, f, indent=1)
        # ---- contract lines
        for f in self.findings:
            if f.fid in self.known_hits:
                print('KNOWN-FINDING: property=%s %s [%s; %d failing obligation(s) match]'
                      % (self.pid, f.what, f.fid, len(self.known_hits[f.fid])))
            else:
                print('note: listed finding %s did not show up in this run' % f.fid)
        for u in self.unexplored[:40]:
            print('UNEXPLORED (time/memory cap, thorough tier): ' + u[:300])
        if self.unexplored and len(self.unexplored) * 5 > max(1, len(self.results)):
            self.inconclusive.append('%d of %d queries hit the time/memory cap' % (len(self.unexplored), len(self.results)))
        rc = 0
        if self.violations:
            seen = set()
            for jn, p, c in self.violations:
                if c['path'] in seen:
                    continue
                seen.add(c['path'])
                print('VIOLATION property=%s replay=%s' % (self.pid, c['path']))
                print('  what: %s  [query %s]' % (p.desc, jn))
                tail = (c.get('text') or '').strip().splitlines()
                for l in tail[:6]:
                    print('  | ' + l[:200])
            rc = 1
        elif self.inconclusive:
            for s in self.inconclusive[:20]:
                print('INCONCLUSIVE: ' + s[:600])
            rc = 2
        print('%s %s: %d queries, %d/%d obligations discharged, %d witnesses reached, %.1fs wall, exit %d'
              % (self.pid, self.tier, queries, cov['discharged'], cov['obligations'],
                 cov['witness_twins_reached'], wall, rc))
        shutil.rmtree(self.scratch, ignore_errors=True)
        return rc
