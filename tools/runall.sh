#!/bin/sh
# runs every registered quick check once; prints one summary line per property
cd "$(dirname "$0")/.."
for p in "$@"; do
  s=$(date +%s)
  ./check $p --tier ${TIER:-quick} > /var/tmp/runall-$p.log 2>&1
  rc=$?
  e=$(date +%s)
  echo "$p exit=$rc wall=$((e-s))s $(grep -c '^KNOWN-FINDING' /var/tmp/runall-$p.log) known $(grep -c '^VIOLATION' /var/tmp/runall-$p.log) violations :: $(tail -1 /var/tmp/runall-$p.log | cut -c1-120)"
done
