#!/usr/bin/env python3
"""Regenerates /verif/MANIFEST.json from the table below (kept by hand)."""
import json, os, sys
HERE = os.path.dirname(os.path.dirname(os.path.abspath(__file__)))
sys.path.insert(0, HERE)

BMC = 'bounded symbolic model checking of the real C sources (CBMC/SAT) against a byte-level wire oracle'
NOTE = ('Trusted: CBMC 6.11 (front end, symbolic execution, SAT back end); the hand-written oracle spec/wire_spec.py; '
        'malloc never fails; CBMC memory is byte-addressed (alignment decided separately by C15); big-endian results '
        'rest on CBMC\'s big-endian model + the BE preprocessor branch (no BE hardware). Counterexamples are replayed '
        'natively (gcc+ASan/UBSan) before a VIOLATION is printed.')

CHECKS = {
 'C01': dict(cat='model_checking', ref='3/C01', tech=BMC,
   text='Every named field of all 23 header formats, generic and dedicated reader, compared with the oracle bit range over ALL buffer contents on an exact-extent object, in the little- and big-endian configuration; loops fully unwound (unwinding assertions proved) so the verdict is complete for the finite input space. The generic reader is also decided over SYMBOLIC descriptors (start quadlet 0..3, width 0..64 symbolic; bit offsets 0/3/16/29/31 in quick, every offset 0..31 in thorough).'),
 'C02': dict(cat='model_checking', ref='3/C02', tech=BMC,
   text='Every named field, generic and dedicated writer, all prior buffer contents x all 2^64 values: whole object compared with the reference writer, read-back == v mod 2^w; exact-extent object; LE+BE. The generic writer is also decided over symbolic descriptors (bit offsets 0/3/16/29/31 in quick, all 0..31 in thorough).'),
 'C03': dict(cat='model_checking', ref='3/C03', tech=BMC,
   text='Every accessor and initialiser runs on an object of exactly the published size with all CBMC pointer checks on; published length, sizeof and offsetof(payload) are compared with the oracle header size; payload accessor address.'),
 'C04': dict(cat='model_checking', ref='3/C04', tech=BMC,
   text='All 20 current and 4 legacy initialisers from an arbitrary prior buffer state: canonical image from the oracle, idempotence, nothing outside the header touched (exact extent); LE+BE.'),

 'C05': dict(cat='model_checking', ref='3/C05', tech=BMC + '; bounded histories + inductive step lemma',
   text='Per format: a k-step history (k=2 quick, 3 thorough, 4 for the stream formats) over two buffers where buffer, operation (init / set), field, entry point (generic, dedicated, legacy) and value are symbolic at every step, compared byte-for-byte and getter-by-getter with the reference image; plus commutation / idempotence / last-write-wins with symbolic field ids. Histories of arbitrary length follow by induction from the step lemma proved by C02/C04 from an ARBITRARY pre-state and the frame condition of C16; the bounded run guards that induction.'),
 'C11': dict(cat='model_checking', ref='3/C11', tech=BMC,
   text='NULL PDU through every reader/writer/initialiser; every 32-bit int outside the enumeration through the by-identifier reader and writer on a valid exact-extent PDU; legacy wrappers over {NULL,valid} PDU x {NULL,valid} result x identifier; return values, no write to PDU/result/bystander memory, no fault (pointer checks).'),
 'C12': dict(cat='model_checking', ref='3/C12', tech=BMC + ' (differential: legacy vs current on two copies of one symbolic buffer)',
   text='For the 5 legacy formats every field: legacy get == current get == oracle bits, legacy set bytes == current set bytes, legacy init == current init, for all buffers and values, LE+BE; every legacy alias macro pinned to the oracle field; struct overlay sizes and offsets.'),
 'C13': dict(cat='model_checking', ref='3/C13', tech=BMC,
   text='All 15 helpers for all 2^16/2^32/2^64 values: memory image of CpuToBe/CpuToLe, inverse laws, to-host from a wire image, swap involution and byte reversal; both #if branches (host little / host big).'),
 'C17': dict(cat='model_checking', ref='3/C17', tech=BMC + ' (relational: two views on the same bytes)',
   text='Every unordered pair of views of every sharing group the property names: read/read, write/write (generic and dedicated), write-through-one/read-through-the-other, pinned to the oracle position; all buffers and values; LE+BE. Each view is compiled in its own TU so that the verdict does not depend on header combination (C20).'),

 'C06': dict(cat='model_checking', ref='3/C06', tech=BMC + '; symbolic-length functional query + exhaustive exact-extent queries',
   text='Full and brief ACF-CAN builders: (F) payload length symbolic 0..64 (thorough: up to the ACF maximum 2028/2036), all payload bytes, all 32-bit identifiers, both variants, all prior contents - whole object incl. guard bytes compared with the reference message; composition SetPayload+setters+Finalize; GetCanPayloadLength; brief return value; (E) one query per concrete length with message and payload objects of exact extent. LE+BE.'),
 'C09': dict(cat='model_checking', ref='3/C09', tech=BMC + '; symbolic-length functional query + exhaustive exact-extent queries',
   text='Avtp_Vss_Pad for every message length 12..96 (thorough: ..2044): length/pad fields, exactly the pad bytes zeroed, everything else incl. guard bytes unchanged; exact-extent object per concrete length; all 512 length values through the dedicated accessors. LE+BE.'),
 'C10': dict(cat='model_checking', ref='3/C10', tech=BMC + '; exhaustive exact-extent queries over all length vectors in the bound',
   text='Pack / count / unpack (length phase and data phase) for EVERY vector of up to 3 strings of up to 2 bytes (thorough: 4 x 3, plus a symbolic-shape functional query) with symbolic bytes and requested counts S-1..S+2, all objects of exact extent; count of 300 empty strings.'),

 'C07': dict(cat='model_checking', ref='3/C07', tech=BMC + ' with a reference encoder written from acf-vss.md',
   text='SetVssPath/SetVssData/CalcVssPathLength for all 24 datatypes x both address modes: (F) symbolic path length 0..6 and value length 0..16 bytes in whole elements (thorough: 16 / 64), symbolic path/value bytes (floats as raw bit patterns), all prior contents - whole object incl. guard bytes compared with the reference encoding; (E) every concrete (path length, element count) pair in the bound with message, path source and value source of exact extent; reserved address modes x every datatype and every reserved datatype code: object must equal its snapshot; interop path lengths around 255/256/511/512, value sizes up to 600 bytes across the 255/256/511/512 boundaries, two-message sequences encoded into one re-used buffer. LE+BE.'),
 'C08': dict(cat='model_checking', ref='3/C08', tech=BMC + ' with a reference encoder written from acf-vss.md',
   text='GetVssPath/GetVssData/CalcVssPathLength on messages produced by the reference encoder (F, symbolic lengths) and by the library encoder shown equal to the reference (E, exact extent): decoded path/value equal the originals bit for bit, the length query (NULL destination) writes only the length, nothing beyond the reported length is written into exact-extent destinations, the message is never modified and never over-read. Same bounds as C07, plus lean decode queries for values of 512..513 bytes and decode sequences of messages placed one after the other at the same buffer address. LE+BE.'),

 'C14': dict(cat='model_checking', ref='3/C14', tech=BMC + ' in the big-endian configuration (goto-cc --big-endian + big-endian preprocessor branch)',
   text='Every harness family of C01-C10, C12, C13, C17 is decided again in the big-endian configuration with the same byte-level oracle assertions (quick: all BE queries of the per-property checks plus BE twins of a sample of the LE-only queries; thorough: a BE twin of every query); two mixed-configuration sanity twins must fail. Equality of LE and BE wire bytes/values follows by transitivity through the byte-defined oracle.',
   note=NOTE + ' A big-endian counterexample cannot run natively and is re-executed with concrete inputs under CBMC\'s big-endian model.'),
 'C15': dict(cat='model_checking', ref='3/C15', tech='BMC with the PDU at every byte offset 1..7 + SMT (z3, cvc5) alignment queries over clang LLVM IR at -O0..-O3',
   text='Half 1: accessor, builder and codec harnesses with the PDU placed at each byte offset 1..7 inside a larger object must discharge the same oracle assertions (values and bytes independent of placement). Half 2: for every library TU and -O0(mem2reg)/-O1/-O2/-O3 every load/store/memcpy operand with alignment > 1 becomes one bit-vector query (root = 0 mod promised ABI alignment, free GEP indices, is addr mod k != 0 satisfiable?), decided by z3 and cross-checked by cvc5; a satisfiable query is replayed natively under -fsanitize=alignment with the PDU at the model residue.',
   note='Trusted: clang-14 IR generation, own IR text parser, z3+cvc5 agreeing; promised alignment = x86-64 ABI alignment of the pointee type; equal results across optimisation levels rest on the compiler preserving defined behaviour given the absence of UB (CBMC checks + this alignment check). 15 classes of typed accesses in Vss.c are recorded known findings.'),
 'C16': dict(cat='other', ref='3/C16', tech='symbol-table inventory + BMC frame check under --nondet-static + composition argument (no schedule exploration)',
   text='Per-function symbolic proof + composition argument, NOT an exploration of interleavings (CBMC refuses pointer-based concurrency). (a) every static-lifetime object of every library goto binary must be const; only memcpy/memset are called externally; (b) every accessor/initialiser/builder/codec harness is decided again with an arbitrary pre-state of all mutable statics (--nondet-static): oracle assertions and pointer checks must hold; (d) all readers of every format are enforced against an EMPTY assigns contract with CBMC dynamic frame condition checking (goto-instrument --dfcc): a getter that writes anything, even identical bytes, fails; (c) functions whose footprint is their arguments plus immutable tables are race-free on distinct arguments, readers on a shared PDU. A mutable static is replayed on two threads under ThreadSanitizer, a writing reader on an mprotect-ed page.',
   note='Trusted: goto-instrument symbol table; the composition argument (stated in DESIGN.md); TSan for replays. Level "other": the schedule quantifier is discharged by argument over solver-checked footprints.'),

 'C20': dict(cat='model_checking', ref='3/C20', tech='front-end compile matrix (goto-cc/gcc C99, clang++ C++17) + BMC-decided value/designation assertions in combined TUs',
   text='(1) compiles: 26 headers alone, all 650 ordered pairs and 3 full-set orders (alphabetical, reverse, VERIF_SEED-shuffled), as C and as C++ - front-end verdicts, not solver queries; macro redefinition between repository headers counts as a conflict. (2) keeps its meaning: in every ordered pair that compiles, every public enumerator, integer macro and sizeof of a public type is asserted equal to its header-alone value (one CBMC query per first header, one TU per pair); in the full-set orders every field enumerator is additionally checked through the real by-identifier reader on a symbolic buffer against the oracle bit range.',
   note='Trusted: the C/C++ front ends for the compile half; CBMC for the assertions. Subsets larger than pairs only through the full-set orders. The aaf/Aaf.h + aaf/Pcm.h legacy-name clash is a recorded known finding (4 entries).'),

 'C18': dict(cat='model_checking', ref='3/C18', tech=BMC + ' of the unmodified example receive paths with environment stubs',
   text='Each listener source is #include-d unmodified into a wrapper TU and linked with the real library; recv delivers an arbitrary datagram (arbitrary length and content, arbitrary stale buffer tail), state carried between datagrams is arbitrary; obligations: every CBMC memory-safety check, every loop bound (an unwinding assertion a datagram can violate = no bound on work per datagram), no fatal status for a bad datagram, every datagram consumed. acf-can (UDP/raw x classic/FD), hello-world (UDP/raw), acf-vss (UDP/raw), cvf, aaf, crf (listener and talker mode); quick 1 datagram, thorough 2 consecutive datagrams.',
   note=NOTE + ' Environment stubs (gen/listeners.py) are part of the claim. Bounds: acf-can received length <= 96/160 bytes, acf-vss <= 128 and cvf <= 160 bytes in the quick tier (1500 in thorough). crf-listener mclk_lookup() unboundedness is a recorded known finding.'),
 'C19': dict(cat='model_checking', ref='3/C19', tech=BMC + ': end-to-end talker builder -> wire bytes -> listener on symbolic CAN frames',
   text='Symbolic classic/FD CAN frames (all ids incl. EFF/RTR, lengths, data, BRS/ESI) go through the unmodified talker packet builder (UDP header, init_cf_pdu, prepare_acf_packet, update_cf_length), the produced bytes through the unmodified listener new_packet(), and the frames captured from its write() are compared field by field; the control-format length field is compared with the sum of the padded message sizes. All 8 modes TSCF/NTSCF x UDP/raw x classic/FD; 1 frame per packet with everything symbolic, 2 (thorough 3) frames with the lengths of the leading frames enumerated concretely.',
   note=NOTE + ' Valid input = what SocketCAN delivers; clock fixed; the talker main loop body is re-stated in the wrapper around the unmodified source.'),
}
NA = {}
for i in ():
    NA['C%02d' % i] = 'check not built yet in this round (see DESIGN.md section 3 for the plan)'

def main():
    extra = {}
    p = os.path.join(HERE, 'tools', 'manifest_extra.py')
    if os.path.exists(p):
        ns = {}
        exec(open(p).read(), ns)
        CHECKS.update(ns.get('CHECKS', {}))
        for k in ns.get('CHECKS', {}):
            NA.pop(k, None)
        NA.update(ns.get('NA', {}))
    m = {
     'version': 1,
     'setup_cmd': './check --setup',
     'hooks': {'guard': 'COVESA_OPEN1722_VERIF', 'enable': 'only C18 scaled queries pass -DCOVESA_OPEN1722_VERIF_MAX_PDU_SIZE=<n> or -DCOVESA_OPEN1722_VERIF_DATA_LEN=<n> when compiling the listener wrapper; every other query builds the unhooked sources; static functions of the examples are reached by #include of the .c file',
               'baseline_off_cmd': 'cmake -S /repo -B /repo/_build -G Ninja -DUNIT_TESTING=ON >/dev/null && cmake --build /repo/_build && ctest --test-dir /repo/_build -j8 --timeout 900',
               'source_commits': ['ea0de93 verif hook: COVESA_OPEN1722_VERIF_MAX_PDU_SIZE / _DATA_LEN scale down the listeners receive buffers'], 'add_only': True},
     'engines': [{'name': 'cbmc-runner', 'path': 'engine/core.py', 'serves_properties': sorted(CHECKS),
                  'kind_free_text': 'goto-cc + CBMC 6.11 bounded symbolic model checking of generated harnesses; trace -> native ASan/UBSan replay'}],
     'checks': [],
     'not_applicable': [{'property_id': k, 'reason': v} for k, v in sorted(NA.items()) if k not in CHECKS],
     'notes': 'All checks: ./check <id> --tier quick|thorough; exit 0 held / 1 VIOLATION (replay-confirmed) / 2 INCONCLUSIVE. known-findings.txt lists recorded and fixed defects.',
    }
    for k in sorted(CHECKS):
        c = CHECKS[k]
        m['checks'].append({
          'property_id': k, 'quick_cmd': './check %s --tier quick' % k,
          'thorough_cmd': './check %s --tier thorough' % k,
          'evidence_file': '/verif/evidence/%s.json' % k,
          'replay_cmd_template': './check --replay {path}', 'engine': c.get('engine', 'cbmc-runner'),
          'level_claimed': {'category': c['cat'], 'text': c['text'], 'design_ref': c['ref']},
          'level_note': c.get('note', NOTE), 'technique': c['tech']})
    json.dump(m, open(os.path.join(HERE, 'MANIFEST.json'), 'w'), indent=1)
    print('MANIFEST.json: %d checks, %d not applicable' % (len(m['checks']), len(m['not_applicable'])))
main()
