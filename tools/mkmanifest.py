#!/usr/bin/env python3
"""Regenerates /verif/MANIFEST.json from the table below (kept by hand)."""
import json, os, sys
HERE = os.path.dirname(os.path.dirname(os.path.abspath(__file__)))
sys.path.insert(0, HERE)

BMC = 'bounded symbolic model checking of the real C sources (CBMC/SAT) against a byte-level wire oracle'
NOTE = ('Trusted: CBMC 6.11 (front end, symbolic execution, SAT back end); the hand-written oracle spec/wire_spec.py; '
        'malloc never fails; CBMC memory is byte-addressed (alignment decided separately by C15); big-endian results '
        'rest on CBMC\'s big-endian model + the BE preprocessor branch (no BE hardware). Counterexamples are replayed '
        'natively (gcc+ASan/UBSan) before a VIOLATION is printed.')

CHECKS = {
 'C01': dict(cat='model_checking', ref='3/C01', tech=BMC,
   text='Every named field of all 23 header formats, generic and dedicated reader, compared with the oracle bit range over ALL buffer contents on an exact-extent object, in the little- and big-endian configuration; loops fully unwound (unwinding assertions proved) so the verdict is complete for the finite input space. Thorough adds the generic reader over symbolic descriptors (quadlet<4, offset 0..31, bits<=64).'),
 'C02': dict(cat='model_checking', ref='3/C02', tech=BMC,
   text='Every named field, generic and dedicated writer, all prior buffer contents x all 2^64 values: whole object compared with the reference writer, read-back == v mod 2^w; exact-extent object; LE+BE. Thorough adds the generic writer over symbolic descriptors.'),
 'C03': dict(cat='model_checking', ref='3/C03', tech=BMC,
   text='Every accessor and initialiser runs on an object of exactly the published size with all CBMC pointer checks on; published length, sizeof and offsetof(payload) are compared with the oracle header size; payload accessor address.'),
 'C04': dict(cat='model_checking', ref='3/C04', tech=BMC,
   text='All 20 current and 4 legacy initialisers from an arbitrary prior buffer state: canonical image from the oracle, idempotence, nothing outside the header touched (exact extent); LE+BE.'),
}
NA = {}
for i in range(5, 21):
    NA['C%02d' % i] = 'check not built yet in this round (see DESIGN.md section 3 for the plan)'

def main():
    extra = {}
    p = os.path.join(HERE, 'tools', 'manifest_extra.py')
    if os.path.exists(p):
        ns = {}
        exec(open(p).read(), ns)
        CHECKS.update(ns.get('CHECKS', {}))
        for k in ns.get('CHECKS', {}):
            NA.pop(k, None)
        NA.update(ns.get('NA', {}))
    m = {
     'version': 1,
     'setup_cmd': './check --setup',
     'hooks': {'guard': 'COVESA_OPEN1722_VERIF', 'enable': 'none needed: no hook is compiled in; static functions of the examples are reached by #include of the unmodified .c file',
               'baseline_off_cmd': 'cmake -S /repo -B /repo/_build -G Ninja -DUNIT_TESTING=ON >/dev/null && cmake --build /repo/_build && ctest --test-dir /repo/_build -j8 --timeout 900',
               'source_commits': [], 'add_only': True},
     'engines': [{'name': 'cbmc-runner', 'path': 'engine/core.py', 'serves_properties': sorted(CHECKS),
                  'kind_free_text': 'goto-cc + CBMC 6.11 bounded symbolic model checking of generated harnesses; trace -> native ASan/UBSan replay'}],
     'checks': [],
     'not_applicable': [{'property_id': k, 'reason': v} for k, v in sorted(NA.items()) if k not in CHECKS],
     'notes': 'All checks: ./check <id> --tier quick|thorough; exit 0 held / 1 VIOLATION (replay-confirmed) / 2 INCONCLUSIVE. known-findings.txt lists recorded and fixed defects.',
    }
    for k in sorted(CHECKS):
        c = CHECKS[k]
        m['checks'].append({
          'property_id': k, 'quick_cmd': './check %s --tier quick' % k,
          'thorough_cmd': './check %s --tier thorough' % k,
          'evidence_file': '/verif/evidence/%s.json' % k,
          'replay_cmd_template': './check --replay {path}', 'engine': c.get('engine', 'cbmc-runner'),
          'level_claimed': {'category': c['cat'], 'text': c['text'], 'design_ref': c['ref']},
          'level_note': c.get('note', NOTE), 'technique': c['tech']})
    json.dump(m, open(os.path.join(HERE, 'MANIFEST.json'), 'w'), indent=1)
    print('MANIFEST.json: %d checks, %d not applicable' % (len(m['checks']), len(m['not_applicable'])))
main()
