#!/bin/sh
cd "$(dirname "$0")/.."
for p in "$@"; do
  s=$(date +%s)
  ./check $p --tier thorough > /var/tmp/thorough-$p.log 2>&1
  rc=$?
  e=$(date +%s)
  echo "$p thorough exit=$rc wall=$((e-s))s unexplored=$(grep -c '^UNEXPLORED' /var/tmp/thorough-$p.log) :: $(tail -1 /var/tmp/thorough-$p.log | cut -c1-140)"
  cp evidence/$p.json /var/tmp/thorough-evidence-$p.json 2>/dev/null
done
