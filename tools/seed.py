#!/usr/bin/env python3
"""Seeded-change bookkeeping.
  seed.py verify <src_dir> <name>           confirm (a) builds+tests pass with patch, (b) demo fails with it,
                                            (c) demo passes without; on success copy to /verif/seeded/<name>/
  seed.py run <name> <Cxx> [<Cyy> ...]      apply seeded/<name>/patch.diff to /repo, run ./check <Cxx> --tier quick,
                                            undo, record the outcome in seeded/<name>/meta.json
"""
import json
import os
import shutil
import subprocess
import sys
import time

VERIF = os.path.dirname(os.path.dirname(os.path.abspath(__file__)))
SEEDED = os.path.join(VERIF, 'seeded')
REPO = '/repo'


def sh(cmd, cwd=None, timeout=1800):
    p = subprocess.run(cmd, shell=True, cwd=cwd, stdout=subprocess.PIPE, stderr=subprocess.STDOUT, timeout=timeout)
    return p.returncode, p.stdout.decode(errors='replace')


def demo_cmd(src_dir):
    if os.path.exists(os.path.join(src_dir, 'cmd.txt')):
        return open(os.path.join(src_dir, 'cmd.txt')).read().strip().replace('{dir}', src_dir)
    if os.path.exists(os.path.join(src_dir, 'demo.sh')):
        return 'sh %s/demo.sh' % src_dir
    extra = ''
    readme = os.path.join(src_dir, 'README.md')
    txt = open(readme).read() if os.path.exists(readme) else ''
    if '-I examples' in txt or '-Iexamples' in txt:
        extra += ' -I examples'
    defs = ''
    return ('gcc -w -fsanitize=address,undefined -fno-sanitize-recover=all -I include%s %s/demo.c '
            '$(find src -name "*.c") -o /tmp/mut/demo.bin -lm && ASAN_OPTIONS=detect_leaks=0 /tmp/mut/demo.bin' % (extra, src_dir))


def verify(src_dir, name):
    wt = '/tmp/mut/verify-' + name
    sh('git -C %s worktree remove --force %s' % (REPO, wt))
    rc, out = sh('git -C %s worktree add --detach %s HEAD' % (REPO, wt))
    if rc:
        print(out)
        return 1
    res = {}
    try:
        cmd = demo_cmd(src_dir)
        rc, out = sh(cmd, cwd=wt)
        res['demo_clean_rc'] = rc
        if rc != 0:
            print('demo fails on the CLEAN tree:\n' + out[-1500:])
        rc, out = sh('git apply %s/patch.diff' % src_dir, cwd=wt)
        if rc:
            print('patch does not apply: ' + out)
            return 1
        rc, out = sh('cmake -S . -B _build -G Ninja -DUNIT_TESTING=ON >/dev/null && cmake --build _build 2>&1 | tail -3 '
                     '&& ctest --test-dir _build -j8 2>&1 | tail -4', cwd=wt)
        res['build_tests_ok'] = (rc == 0 and '100% tests passed' in out)
        if not res['build_tests_ok']:
            print('build/tests with patch:\n' + out[-1500:])
        rc, out = sh(cmd, cwd=wt)
        res['demo_patched_rc'] = rc
        res['demo_patched_tail'] = out[-600:]
    finally:
        sh('git -C %s worktree remove --force %s' % (REPO, wt))
        shutil.rmtree(wt, ignore_errors=True)
        sh('git -C %s worktree prune' % REPO)
    ok = res.get('build_tests_ok') and res.get('demo_clean_rc') == 0 and res.get('demo_patched_rc', 0) != 0
    print(name, 'VERIFIED' if ok else 'REJECTED', res.get('demo_clean_rc'), res.get('build_tests_ok'), res.get('demo_patched_rc'))
    if ok:
        d = os.path.join(SEEDED, name)
        os.makedirs(d, exist_ok=True)
        for f in os.listdir(src_dir):
            if os.path.isfile(os.path.join(src_dir, f)) and os.path.getsize(os.path.join(src_dir, f)) < 200000:
                shutil.copy(os.path.join(src_dir, f), os.path.join(d, f))
        mp = os.path.join(d, 'meta.json')
        meta = json.load(open(mp)) if os.path.exists(mp) else {}
        meta.update({'name': name, 'verified': {'clean_demo_rc': res['demo_clean_rc'],
                                                 'tests_pass_with_patch': True,
                                                 'patched_demo_rc': res['demo_patched_rc'],
                                                 'demo_command': demo_cmd(os.path.join('seeded', name)),
                                                 'at_repo_commit': sh('git -C /repo rev-parse --short HEAD')[1].strip()}})
        json.dump(meta, open(mp, 'w'), indent=1)
    return 0 if ok else 1


def run(name, props):
    d = os.path.join(SEEDED, name)
    mp = os.path.join(d, 'meta.json')
    meta = json.load(open(mp)) if os.path.exists(mp) else {'name': name}
    rc, out = sh('git -C %s status --porcelain --untracked-files=no' % REPO)
    if out.strip():
        print('/repo is not clean, refusing:\n' + out)
        return 1
    rc, out = sh('git -C %s apply %s/patch.diff' % (REPO, d))
    if rc:
        print('patch does not apply: ' + out)
        return 1
    results = meta.setdefault('checks', {})
    try:
        for p in props:
            t0 = time.time()
            rc, out = sh('./check %s --tier quick' % p, cwd=VERIF, timeout=3600)
            viol = [l for l in out.splitlines() if l.startswith('VIOLATION')]
            what = [l.strip() for l in out.splitlines() if l.strip().startswith('what:')]
            results[p] = {'exit': rc, 'violations': len(viol), 'what': what[:4], 'wall_s': round(time.time() - t0, 1),
                          'caught': rc == 1 and bool(viol)}
            print('%s under %s: exit %d, %d VIOLATION line(s), %.0fs  %s' % (name, p, rc, len(viol), time.time() - t0,
                                                                             (what[0][:140] if what else '')))
            if rc == 2:
                print('\n'.join(l for l in out.splitlines() if l.startswith('INCONCLUSIVE'))[:1500])
    finally:
        sh('git -C %s checkout -- .' % REPO)
    json.dump(meta, open(mp, 'w'), indent=1)
    return 0


if __name__ == '__main__':
    if sys.argv[1] == 'verify':
        sys.exit(verify(sys.argv[2], sys.argv[3]))
    elif sys.argv[1] == 'run':
        sys.exit(run(sys.argv[2], sys.argv[3:]))
